//go:build race

package simrt

import (
	"runtime"
	"unsafe"
)

const raceEnabled = true

//go:norace
func raceDisable() { runtime.RaceDisable() }

//go:norace
func raceEnable() { runtime.RaceEnable() }

//go:norace
func raceAcquire(p unsafe.Pointer) { runtime.RaceAcquire(p) }

//go:norace
func raceRelease(p unsafe.Pointer) { runtime.RaceRelease(p) }

//go:norace
func raceReleaseMerge(p unsafe.Pointer) { runtime.RaceReleaseMerge(p) }

// RaceErrors returns the number of races reported so far by the detector.
func RaceErrors() int { return runtime.RaceErrors() }

//go:norace
func newTok() unsafe.Pointer {
	t := new(int64)
	p := unsafe.Pointer(t)
	runtime.RaceRelease(p)
	return p
}

// RaceEnabled reports whether the binary was built with -race.
func RaceEnabled() bool { return true }
