package simrt

import (
	"sort"
	"time"
	"unsafe"
)

// Epoch is the wall-clock instant of simulated time zero.
var Epoch = time.Date(2024, 1, 1, 0, 0, 0, 0, time.UTC)

// TimeOf converts simulated nanoseconds to a time.Time.
func TimeOf(ns int64) time.Time { return Epoch.Add(time.Duration(ns)) }

// Active reports whether the caller runs inside a simulation.
//
//go:norace
func Active() bool { return theS != nil && current != nil }

// NowNS returns the simulated clock and advances it by 1ns (strictly monotonic).
//
//go:norace
func NowNS() int64 {
	clock++
	return clock
}

// PeekNS returns the simulated clock without advancing it.
//
//go:norace
func PeekNS() int64 { return clock }

// Step returns the number of scheduling steps executed so far.
//
//go:norace
func Step() int64 { return stepNow }

// GID returns the id of the running simulated goroutine.
//
//go:norace
func GID() int {
	if current == nil {
		return -1
	}
	return current.id
}

// Log appends an entry to the run's history (no scheduling point).
//
//go:norace
func Log(e Entry) {
	if current == nil || current.dead {
		return
	}
	e.Step = stepNow
	e.G = current.id
	if logLen == len(logBuf) {
		nb := make([]Entry, 2*len(logBuf))
		for i := 0; i < logLen; i++ {
			nb[i] = logBuf[i]
		}
		logBuf = nb
	}
	logBuf[logLen] = e
	logLen++
}

// Mark adds n to a named counter of the run (reach probes).
//
//go:norace
func Mark(name string, n int64) {
	if current == nil || current.dead {
		return
	}
	call(request{kind: opMark, str: name, n: n})
}

// EnterFair switches the scheduler to the fair suffix (round robin, timers
// only when idle); liveness is judged from here on.
//
//go:norace
func EnterFair() { call(request{kind: opFair}) }

// Yield is an explicit scheduling point.
//
//go:norace
func Yield(site string) { call(request{kind: opYield, site: site}) }

// Go starts fn as a simulated goroutine created at site.
//
//go:norace
func Go(site string, fn func()) {
	g := current
	if g == nil {
		panic("simrt.Go outside simulation")
	}
	if g.dead {
		return
	}
	rep := call(request{kind: opGo, site: site})
	go trampoline(rep.g, fn)
}

//go:norace
func chptr[C any](ch C) unsafe.Pointer { return *(*unsafe.Pointer)(unsafe.Pointer(&ch)) }

// SendOp returns a function that sends its argument on ch.
//
//go:norace
func SendOp[C ~chan T | ~chan<- T, T any](site string, ch C) func(T) {
	return func(v T) { send(site, chptr(ch), cap(ch), v) }
}

//go:norace
func send(site string, p unsafe.Pointer, cp int, v interface{}) {
	call(request{kind: opSend, site: site, ch: p, chcap: cp, val: v, tok: newTok()})
}

//go:norace
func conv[T any](v interface{}) T {
	if v == nil {
		var z T
		return z
	}
	return v.(T)
}

// Recv receives from ch.
//
//go:norace
func Recv[C ~chan T | ~<-chan T, T any](site string, ch C) T {
	rep := call(request{kind: opRecv, site: site, ch: chptr(ch), chcap: cap(ch), tok: newTok()})
	return conv[T](rep.val)
}

// Recv2 receives from ch and reports whether the value was sent (not closed).
//
//go:norace
func Recv2[C ~chan T | ~<-chan T, T any](site string, ch C) (T, bool) {
	rep := call(request{kind: opRecv, site: site, ch: chptr(ch), chcap: cap(ch), tok: newTok()})
	return conv[T](rep.val), rep.ok
}

// Close closes ch.
//
//go:norace
func Close[C ~chan T | ~chan<- T, T any](site string, ch C) {
	call(request{kind: opClose, site: site, ch: chptr(ch), chcap: cap(ch), tok: newTok()})
}

// Len is len(ch) on the simulated channel.
//
//go:norace
func Len[C ~chan T | ~<-chan T, T any](ch C) int {
	return int(call(request{kind: opLen, ch: chptr(ch), chcap: cap(ch)}).n)
}

// RecvCase builds a receive case.
//
//go:norace
func RecvCase[C ~chan T | ~<-chan T, T any](ch C) Case {
	return Case{selCase{ch: chptr(ch), cap: cap(ch)}}
}

// SendCase returns a builder of a send case.
//
//go:norace
func SendCase[C ~chan T | ~chan<- T, T any](ch C) func(T) Case {
	return func(v T) Case { return Case{selCase{ch: chptr(ch), cap: cap(ch), send: true, val: v}} }
}

// RecvVal converts the value returned by Select for a receive case on ch.
//
//go:norace
func RecvVal[C ~chan T | ~<-chan T, T any](ch C, v interface{}) T { return conv[T](v) }

// Select executes a select statement; idx is -1 for default.
//
//go:norace
func Select(site string, hasDefault bool, cases ...Case) (idx int, val interface{}, ok bool) {
	rep := call(request{kind: opSelect, site: site, cases: cases, hasDefault: hasDefault, tok: newTok()})
	return rep.idx, rep.val, rep.ok
}

type ordered interface {
	~int | ~int8 | ~int16 | ~int32 | ~int64 | ~uint | ~uint8 | ~uint16 | ~uint32 | ~uint64 | ~uintptr | ~float32 | ~float64 | ~string
}

// MapKeys returns the keys of m in an order chosen by the scheduler
// (sorted, then permuted by recorded choices).
//
//go:norace
func MapKeys[K ordered, V any](site string, m map[K]V) []K {
	keys := make([]K, 0, len(m))
	for k := range m {
		keys = append(keys, k)
	}
	sort.Slice(keys, func(i, j int) bool { return keys[i] < keys[j] })
	g := current
	if g == nil || g.dead || len(keys) < 2 {
		return keys
	}
	rep := call(request{kind: opPerm, site: site, n: int64(len(keys))})
	perm := rep.val.([]int)
	out := make([]K, len(keys))
	for i, j := range perm {
		out[i] = keys[j]
	}
	return out
}

// WGAdd / WGWait / Lock ... are used by package ssync.

//go:norace
func WGAdd(site string, p unsafe.Pointer, d int) {
	if d < 0 {
		raceReleaseMerge(p)
	}
	call(request{kind: opWGAdd, site: site, ch: p, n: int64(d)})
}

//go:norace
func WGWait(site string, p unsafe.Pointer) {
	call(request{kind: opWGWait, site: site, ch: p})
	raceAcquire(p)
}

//go:norace
func Lock(site string, p unsafe.Pointer, read bool) {
	k := opLock
	if read {
		k = opRLock
	}
	call(request{kind: k, site: site, ch: p})
	raceAcquire(p)
}

//go:norace
func Unlock(site string, p unsafe.Pointer, read bool) {
	k := opUnlock
	if read {
		k = opRUnlock
		raceReleaseMerge(p)
	} else {
		raceRelease(p)
	}
	call(request{kind: k, site: site, ch: p})
}

// Sleep parks the goroutine for d simulated nanoseconds.
//
//go:norace
func Sleep(site string, d int64) { call(request{kind: opSleep, site: site, n: d}) }

// WaitStep parks the goroutine until the scheduler has executed at least n
// steps; it is then run before anything else (fault injection at an exact step).
//
//go:norace
func WaitStep(site string, n int64) { call(request{kind: opWaitStep, site: site, n: n}) }

// Timer kinds for NewTimer.
const (
	KTicker    = int(tTicker)
	KTimer     = int(tTimer)
	KAfterFunc = int(tAfterFunc)
)

// NewTimer registers a timer; ch is the channel pointer for tickers/timers.
//
//go:norace
func NewTimer(site string, kind int, ch unsafe.Pointer, d int64, fn func()) unsafe.Pointer {
	rep := call(request{kind: opTimerNew, site: site, ch: ch, chcap: kind, n: d, fn: fn})
	return rep.ptr
}

//go:norace
func StopTimer(t unsafe.Pointer) bool {
	if t == nil {
		return false
	}
	return call(request{kind: opTimerStop, ch: t}).ok
}

//go:norace
func ResetTimer(t unsafe.Pointer, d int64) bool {
	return call(request{kind: opTimerReset, ch: t, n: d}).ok
}

// ChanPtr exposes the identity of a channel.
//
//go:norace
func ChanPtr[C ~chan T | ~<-chan T | ~chan<- T, T any](ch C) unsafe.Pointer { return chptr(ch) }

// CtxNew registers a context; returns the parent's error code if the parent is already done.
//
//go:norace
func CtxNew(ctx, done, parent unsafe.Pointer) int64 {
	return call(request{kind: opCtxNew, ch: ctx, val: done, p2: parent}).n
}

// CtxCancel cancels ctx with error code; returns its children.
//
//go:norace
func CtxCancel(site string, ctx unsafe.Pointer, code int64) []unsafe.Pointer {
	rep := call(request{kind: opCtxCancel, site: site, ch: ctx, n: code, tok: newTok()})
	k, _ := rep.val.([]unsafe.Pointer)
	return k
}

//go:norace
func CtxErr(ctx unsafe.Pointer) int64 { return call(request{kind: opCtxErr, ch: ctx}).n }

// ChanIter drives a rewritten `for x := range ch` loop.
type ChanIter[T any] struct {
	site string
	ch   unsafe.Pointer
	cap  int
}

// RangeFirst performs the first receive of a range-over-channel loop.
//
//go:norace
func RangeFirst[C ~chan T | ~<-chan T, T any](site string, ch C) (T, bool, *ChanIter[T]) {
	it := &ChanIter[T]{site, chptr(ch), cap(ch)}
	v, ok := it.Next()
	return v, ok, it
}

// Next performs the next receive.
//
//go:norace
func (it *ChanIter[T]) Next() (T, bool) {
	rep := call(request{kind: opRecv, site: it.site, ch: it.ch, chcap: it.cap, tok: newTok()})
	return conv[T](rep.val), rep.ok
}

// MapIter drives a rewritten `for k, v := range m` loop.
type MapIter[K ordered, V any] struct {
	m    map[K]V
	keys []K
	i    int
	k    K
	v    V
}

// MapRange starts an iteration over m in a scheduler-chosen key order.
func MapRange[K ordered, V any](site string, m map[K]V) *MapIter[K, V] {
	return &MapIter[K, V]{m: m, keys: MapKeys(site, m)}
}

// Next advances to the next key that is still present in the map.
func (it *MapIter[K, V]) Next() bool {
	for it.i < len(it.keys) {
		k := it.keys[it.i]
		it.i++
		if v, ok := it.m[k]; ok {
			it.k, it.v = k, v
			return true
		}
	}
	return false
}

func (it *MapIter[K, V]) Key() K { return it.k }
func (it *MapIter[K, V]) Val() V { return it.v }

// BadSelect is the panic value of the unreachable default branch that the
// rewriter adds to a select without default.
func BadSelect() string { return "simrt: select returned no case" }
