package simrt

import (
	"container/heap"
	"unsafe"
)

type timerKind int

const (
	tSleep timerKind = iota
	tTicker
	tTimer
	tAfterFunc
)

type timer struct {
	at     int64
	seq    int64
	kind   timerKind
	ch     unsafe.Pointer
	period int64
	g      *G
	fn     func()
	site   string
	active bool
	index  int
}

type timerHeap []*timer

func (h timerHeap) Len() int { return len(h) }
func (h timerHeap) Less(i, j int) bool {
	if h[i].at != h[j].at {
		return h[i].at < h[j].at
	}
	return h[i].seq < h[j].seq
}
func (h timerHeap) Swap(i, j int) {
	h[i], h[j] = h[j], h[i]
	h[i].index = i
	h[j].index = j
}
func (h *timerHeap) Push(x interface{}) {
	t := x.(*timer)
	t.index = len(*h)
	*h = append(*h, t)
}
func (h *timerHeap) Pop() interface{} {
	old := *h
	n := len(old)
	t := old[n-1]
	old[n-1] = nil
	*h = old[:n-1]
	t.index = -1
	return t
}

//go:norace
func (s *sched) addTimer(t *timer) {
	s.tseq++
	t.seq = s.tseq
	t.active = true
	heap.Push(&s.timers, t)
}

//go:norace
func (s *sched) delTimer(t *timer) {
	if t.active && t.index >= 0 {
		heap.Remove(&s.timers, t.index)
	}
	t.active = false
}

// fireNextTimer advances the clock to the earliest timer and fires it.
//
//go:norace
func (s *sched) fireNextTimer() {
	t := heap.Pop(&s.timers).(*timer)
	t.active = false
	if t.at > clock {
		clock = t.at
	}
	s.res.TimerFires++
	s.lastFire = s.step
	switch t.kind {
	case tSleep:
		s.wakeG(t.g, reply{})
		s.idleFires = 0
	case tTicker, tTimer:
		c := s.chanOf(t.ch, 1)
		// non-blocking send of the current time
		if w := popWaiter(&c.recvq); w != nil {
			s.complete(w, reply{val: TimeOf(clock), ok: true})
			s.idleFires = 0
		} else if len(c.buf) < 1 {
			c.buf = append(c.buf, bufItem{val: TimeOf(clock)})
		}
		if t.kind == tTicker {
			t.at += t.period
			if t.at <= clock {
				t.at = clock + t.period
			}
			s.addTimer(t)
		}
	case tAfterFunc:
		ng := s.newG("afterfunc@" + t.site)
		fn := t.fn
		go trampoline(ng, fn)
		s.idleFires = 0
	}
	if s.cfg.Trace != nil {
		s.cfg.Trace("       timer fired kind=" + [...]string{"sleep", "ticker", "timer", "afterfunc"}[t.kind] + " site=" + t.site)
	}
	s.hash = (s.hash ^ uint64(0xfeed+int(t.kind))) * 1099511628211
}
