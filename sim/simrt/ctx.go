package simrt

import "unsafe"

type ctxState struct {
	parent   *ctxState
	children []unsafe.Pointer
	done     unsafe.Pointer
	err      int64
}

// ctxNew registers context r.ch (done channel r.val) under parent r.p2 (may be nil).
//
//go:norace
func (s *sched) ctxNew(r *request) reply {
	c := &ctxState{}
	c.done, _ = r.val.(unsafe.Pointer)
	s.ctxs[r.ch] = c
	var perr int64
	if r.p2 != nil {
		if p, ok := s.ctxs[r.p2]; ok {
			c.parent = p
			if p.err != 0 {
				perr = p.err
			} else {
				p.children = append(p.children, r.ch)
			}
		}
	}
	return reply{n: perr}
}

// ctxCancel marks the context cancelled, closes its done channel and hands the
// list of children back to the caller, which cancels them one by one (each a
// step of its own, as the standard library does under separate locks).
//
//go:norace
func (s *sched) ctxCancel(g *G, r *request) reply {
	c, ok := s.ctxs[r.ch]
	if !ok || c.err != 0 {
		return reply{}
	}
	c.err = r.n
	s.step++
	stepNow = s.step
	ch := s.chanOf(c.done, 0)
	if !ch.closed {
		s.closeChan(ch, r.tok)
	}
	s.note(g, opCtxCancel, "", s.siteID(r.site))
	kids := c.children
	c.children = nil
	if c.parent != nil {
		p := c.parent
		for i, k := range p.children {
			if k == r.ch {
				p.children = append(p.children[:i:i], p.children[i+1:]...)
				break
			}
		}
	}
	return reply{val: kids, ok: true}
}

//go:norace
func (s *sched) ctxErr(r *request) reply {
	if c, ok := s.ctxs[r.ch]; ok {
		return reply{n: c.err}
	}
	return reply{}
}
