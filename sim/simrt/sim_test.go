package simrt_test

import (
	"fmt"
	"testing"

	"verif/sim/sctx"
	"verif/sim/simrt"
	"verif/sim/ssync"
	"verif/sim/stime"
)

func run(seed uint64, strat string, f func()) *simrt.Result {
	return simrt.Run(simrt.Config{Seed: seed, Strategy: strat, PTick: 0.05, PPreempt: 0.2, PCTDepth: 3, StarvePct: 30, StarveMax: 50}, f)
}

func TestPingPong(t *testing.T) {
	for _, st := range []string{"random", "rtb", "pct", "starve", "default"} {
		var got []int
		r := run(1, st, func() {
			ch := make(chan int)
			done := make(chan struct{})
			simrt.Go("prod", func() {
				for i := 0; i < 5; i++ {
					simrt.SendOp("s", ch)(i)
				}
				simrt.Close("c", ch)
			})
			simrt.Go("cons", func() {
				for {
					v, ok := simrt.Recv2("r", ch)
					if !ok {
						break
					}
					got = append(got, v)
				}
				simrt.Close("d", done)
			})
			simrt.Recv("m", done)
		})
		if r.Outcome != simrt.OK || fmt.Sprint(got) != "[0 1 2 3 4]" || len(r.Live) != 0 {
			t.Fatalf("%s: %v %v live=%v", st, r.Outcome, got, r.Live)
		}
	}
}

func TestDeadlockAndLeak(t *testing.T) {
	r := run(1, "random", func() {
		ch := make(chan int)
		simrt.Recv("m", ch)
	})
	if r.Outcome != simrt.Deadlock {
		t.Fatal(r.Outcome)
	}
	r = run(1, "random", func() {
		ch := make(chan int)
		simrt.Go("leaker", func() { simrt.Recv("l", ch) })
	})
	if r.Outcome != simrt.OK || len(r.Live) != 1 || r.Live[0].Site != "leaker" {
		t.Fatal(r.Outcome, r.Live)
	}
}

func TestPanics(t *testing.T) {
	r := run(1, "random", func() {
		ch := make(chan int)
		simrt.Close("a", ch)
		simrt.Close("b", ch)
	})
	if r.Outcome != simrt.Panic || r.PanicVal != "close of closed channel" {
		t.Fatal(r.Outcome, r.PanicVal)
	}
	r = run(1, "random", func() {
		ch := make(chan int, 1)
		simrt.Close("a", ch)
		simrt.SendOp("b", ch)(1)
	})
	if r.Outcome != simrt.Panic || r.PanicVal != "send on closed channel" {
		t.Fatal(r.Outcome, r.PanicVal)
	}
	r = run(1, "random", func() {
		var wg ssync.WaitGroup
		wg.Done()
	})
	if r.Outcome != simrt.Panic {
		t.Fatal(r.Outcome, r.PanicVal)
	}
	// parked sender panics when the channel is closed
	r = run(1, "default", func() {
		ch := make(chan int)
		simrt.Go("s", func() { simrt.SendOp("s", ch)(1) })
		simrt.Yield("y")
		simrt.Close("c", ch)
		stime.Sleep(10)
	})
	if r.Outcome != simrt.Panic || r.PanicVal != "send on closed channel" || r.PanicG.Site != "s" {
		t.Fatal(r.Outcome, r.PanicVal, r.PanicG)
	}
}

// racy select: outcomes must vary with the seed and be reproducible per seed
func TestSelectChoiceAndDeterminism(t *testing.T) {
	prog := func(out *string) func() {
		return func() {
			a, b := make(chan int, 1), make(chan int, 1)
			simrt.SendOp("a", a)(1)
			simrt.SendOp("b", b)(2)
			for i := 0; i < 2; i++ {
				k, v, _ := simrt.Select("sel", false, simrt.RecvCase(a), simrt.RecvCase(b))
				*out += fmt.Sprint(k, simrt.RecvVal(a, v))
			}
		}
	}
	seen := map[string]bool{}
	for seed := uint64(0); seed < 40; seed++ {
		var o1, o2 string
		r1 := run(seed, "random", prog(&o1))
		r2 := run(seed, "random", prog(&o2))
		if o1 != o2 || r1.TraceHash != r2.TraceHash {
			t.Fatal("nondeterministic", o1, o2)
		}
		seen[o1] = true
		// replay from recorded choices
		var o3 string
		r3 := simrt.Run(simrt.Config{Replay: true, Choices: r1.Choices}, prog(&o3))
		if o3 != o1 || r3.TraceHash != r1.TraceHash {
			t.Fatal("replay differs", o1, o3)
		}
	}
	if len(seen) != 2 {
		t.Fatal(seen)
	}
}

func TestTimersAndClock(t *testing.T) {
	var ticks int
	var elapsed stime.Duration
	r := run(3, "random", func() {
		start := stime.Now()
		tk := stime.NewTicker(stime.Hour)
		for i := 0; i < 5; i++ {
			simrt.Recv("t", tk.C)
			ticks++
		}
		tk.Stop()
		elapsed = stime.Since(start)
	})
	if r.Outcome != simrt.OK || ticks != 5 || elapsed < 5*stime.Hour || elapsed > 5*stime.Hour+100 {
		t.Fatal(r.Outcome, ticks, elapsed)
	}
}

func TestContext(t *testing.T) {
	var order []string
	r := run(5, "random", func() {
		root, cancel := sctx.WithCancel(sctx.Background())
		child, _ := sctx.WithCancel(root)
		var wg ssync.WaitGroup
		wg.Add(2)
		simrt.Go("a", func() { simrt.Recv("a", root.Done()); wg.Done() })
		simrt.Go("b", func() { simrt.Recv("b", child.Done()); wg.Done() })
		cancel()
		wg.Wait()
		if root.Err() != sctx.Canceled || child.Err() != sctx.Canceled {
			order = append(order, "bad err")
		}
		late, _ := sctx.WithCancel(child)
		simrt.Recv("late", late.Done())
		tctx, c2 := sctx.WithTimeout(sctx.Background(), stime.Second)
		defer c2()
		simrt.Recv("to", tctx.Done())
		if tctx.Err() != sctx.DeadlineExceeded {
			order = append(order, "bad deadline err")
		}
	})
	if r.Outcome != simrt.OK || len(order) != 0 || len(r.Live) != 0 {
		t.Fatal(r.Outcome, order, r.Live, r.PanicVal)
	}
}

func TestMutexOnce(t *testing.T) {
	for seed := uint64(0); seed < 30; seed++ {
		n := 0
		cnt := 0
		r := run(seed, "random", func() {
			var mu ssync.Mutex
			var once ssync.Once
			var wg ssync.WaitGroup
			for i := 0; i < 4; i++ {
				wg.Add(1)
				simrt.Go("w", func() {
					once.Do(func() { cnt++ })
					mu.Lock()
					x := n
					simrt.Yield("y")
					n = x + 1
					mu.Unlock()
					wg.Done()
				})
			}
			wg.Wait()
		})
		if r.Outcome != simrt.OK || n != 4 || cnt != 1 {
			t.Fatal(seed, r.Outcome, n, cnt, r.PanicVal)
		}
	}
}

func TestHang(t *testing.T) {
	r := simrt.Run(simrt.Config{Seed: 1, Strategy: "random", MaxSteps: 1000, FairBudget: 5000}, func() {
		a := make(chan int)
		done := make(chan int)
		simrt.Go("spin", func() {
			for {
				simrt.SendOp("s", a)(1)
			}
		})
		simrt.Go("spin2", func() {
			for {
				simrt.Recv("r", a)
			}
		})
		simrt.Recv("m", done)
	})
	if r.Outcome != simrt.Hang {
		t.Fatal(r.Outcome)
	}
}

// TestCond: Signal wakes exactly one waiter, Broadcast all of them (sampled over schedules; the
// exhaustive litmus explorer does not terminate in reasonable time on these programs).
func TestCond(t *testing.T) {
	for seed := uint64(1); seed <= 3000; seed++ {
		st := []string{"random", "rtb", "pct", "starve"}[seed%4]
		out := ""
		r := run(seed, st, func() {
			var mu ssync.Mutex
			c := ssync.NewCond(&mu)
			ready := make(chan int, 2)
			done := make(chan int, 2)
			for i := 0; i < 2; i++ {
				simrt.Go("waiter", func() {
					mu.Lock()
					simrt.SendOp("ready", ready)(1)
					c.Wait()
					mu.Unlock()
					simrt.SendOp("done", done)(1)
				})
			}
			simrt.Recv("r1", ready)
			simrt.Recv("r2", ready)
			mu.Lock() // both waiters have released the lock inside Wait
			c.Signal()
			mu.Unlock()
			simrt.Recv("d1", done)
			mu.Lock()
			mu.Unlock()
			for i := 0; i < 3; i++ {
				simrt.Yield("y")
			}
			if simrt.Len(done) > 0 {
				out = "two woke"
				return
			}
			c.Broadcast()
			simrt.Recv("d2", done)
			out = "ok"
		})
		if r.Outcome != simrt.OK || out != "ok" {
			t.Fatalf("seed %d (%s): outcome %v, %q", seed, st, r.Outcome, out)
		}
	}
}
