//go:build !race

package simrt

import "unsafe"

const raceEnabled = false

func raceDisable()                      {}
func raceEnable()                       {}
func raceAcquire(p unsafe.Pointer)      {}
func raceRelease(p unsafe.Pointer)      {}
func raceReleaseMerge(p unsafe.Pointer) {}

// RaceErrors returns the number of races reported so far by the detector.
func RaceErrors() int { return 0 }

func newTok() unsafe.Pointer { return nil }

// RaceEnabled reports whether the binary was built with -race.
func RaceEnabled() bool { return false }
