package simrt

type rng struct{ s uint64 }

//go:norace
func (r *rng) seed(x uint64) { r.s = x ^ 0x9e3779b97f4a7c15 }

//go:norace
func (r *rng) next() uint64 {
	r.s += 0x9e3779b97f4a7c15
	z := r.s
	z = (z ^ (z >> 30)) * 0xbf58476d1ce4e5b9
	z = (z ^ (z >> 27)) * 0x94d049bb133111eb
	return z ^ (z >> 31)
}

//go:norace
func (r *rng) intn(n int) int {
	if n <= 1 {
		return 0
	}
	return int(r.next() % uint64(n))
}

//go:norace
func (r *rng) float() float64 { return float64(r.next()>>11) / (1 << 53) }

// Mix derives an independent seed from a seed and a stream index.
func Mix(a, b uint64) uint64 {
	var r rng
	r.s = a ^ (b * 0xd6e8feb86659fd93)
	r.next()
	return r.next()
}

// pick implements the search strategies. cands[0] is the default pick; index
// len(cands) means "fire the next timer" (only if timerOK).
//
//go:norace
func (s *sched) pick(cands []*G, timerOK bool) int {
	n := len(cands)
	if timerOK && s.rng.float() < s.cfg.PTick {
		return n
	}
	if n == 0 {
		return 0
	}
	switch s.cfg.Strategy {
	case "default":
		return 0
	case "rtb":
		if cands[0] == s.cur && s.rng.float() >= s.cfg.PPreempt {
			return 0
		}
		return s.rng.intn(n)
	case "pct":
		for len(s.pctChange) > 0 && s.step >= s.pctChange[0] {
			if s.cur != nil {
				s.cur.prio = -float64(len(s.pctChange))
			}
			s.pctChange = s.pctChange[1:]
		}
		best := 0
		for i := 1; i < n; i++ {
			if cands[i].prio > cands[best].prio {
				best = i
			}
		}
		return best
	case "starve":
		// goroutine classes (creation sites) drawn per run are delayed while an
		// alternative exists, up to StarveMax skips per goroutine
		var okBuf [16]int
		ok := okBuf[:0]
		for i, g := range cands {
			st, seen := s.starvedClass[g.class]
			if !seen {
				st = int(Mix(s.cfg.Seed, uint64(hashStr(s.classes[g.class])))%100) < s.cfg.StarvePct
				s.starvedClass[g.class] = st
			}
			if st && g.skipped < s.cfg.StarveMax {
				continue
			}
			ok = append(ok, i)
		}
		if len(ok) == 0 || len(ok) == n {
			if cands[0] == s.cur && s.rng.float() >= s.cfg.PPreempt {
				return 0
			}
			return s.rng.intn(n)
		}
		for i, g := range cands {
			skip := true
			for _, j := range ok {
				if j == i {
					skip = false
				}
			}
			if skip {
				g.skipped++
				s.starveCnt[g.class]++
			}
		}
		if ok[0] == 0 && cands[0] == s.cur && s.rng.float() >= s.cfg.PPreempt {
			return 0
		}
		return ok[s.rng.intn(len(ok))]
	default: // random
		return s.rng.intn(n)
	}
}

func hashStr(s string) uint32 {
	h := uint32(2166136261)
	for i := 0; i < len(s); i++ {
		h = (h ^ uint32(s[i])) * 16777619
	}
	return h
}
