// Package simrt is a deterministic, single-stepping replacement for the Go
// concurrency primitives. Real goroutines are used, but exactly one runs at a
// time: every channel operation, select, close, WaitGroup / Mutex operation,
// sleep and goroutine start is posted to one scheduler goroutine which owns the
// whole model (goroutine table, channel states, timers, PRNG, trace) and decides
// who proceeds next. A run is a pure function of (program, Config).
//
// All functions of this package that touch simulator state are //go:norace and
// all baton handoffs happen under runtime.RaceDisable, so that a -race build
// sees only the happens-before edges that the simulated primitives announce
// explicitly (see race_on.go).
package simrt

import (
	"fmt"
	"runtime"
	"sort"
	"strings"
	"unsafe"
)

type opKind uint8

const (
	opStart opKind = iota
	opYield
	opSend
	opRecv
	opClose
	opSelect
	opWGAdd
	opWGWait
	opLock
	opRLock
	opSleep
	opWaitStep
	// immediate (non-scheduling) operations
	opGo
	opUnlock
	opRUnlock
	opTimerNew
	opTimerStop
	opTimerReset
	opCtxNew
	opCtxCancel
	opCtxErr
	opFair
	opMark
	opPerm
	opLen
	// goroutine end
	opExit
	opPanic
	opExitDead
)

var opNames = [...]string{"start", "yield", "send", "recv", "close", "select", "wg.Add", "wg.Wait", "lock", "rlock", "sleep", "waitstep",
	"go", "unlock", "runlock", "timer.new", "timer.stop", "timer.reset", "ctx.new", "ctx.cancel", "ctx.err", "fair", "mark", "perm", "len", "exit", "panic", "exitdead"}

func (k opKind) String() string { return opNames[k] }

type selCase struct {
	ch   unsafe.Pointer
	cap  int
	send bool
	val  interface{}
}

// Case is one case of a simulated select.
type Case struct{ c selCase }

type request struct {
	g          *G
	kind       opKind
	site       string
	ch         unsafe.Pointer
	chcap      int
	val        interface{}
	cases      []Case
	hasDefault bool
	n          int64
	fn         func()
	tok        unsafe.Pointer // race token released by the poster
	p2         unsafe.Pointer
	str        string
}

type reply struct {
	val   interface{}
	ok    bool
	idx   int
	n     int64
	panic string
	dead  bool
	g     *G
	acq   unsafe.Pointer // race token to acquire after waking
	ptr   unsafe.Pointer
}

type gStatus uint8

const (
	gRunnable gStatus = iota
	gParked
	gExited
)

// G is a simulated goroutine.
type G struct {
	id    int
	site  string
	class int
	wake  chan reply
	// owned by the goroutine itself
	dead bool
	// owned by the scheduler
	status   gStatus
	pending  request
	hasReply bool
	rep      reply
	parkKind opKind
	parkSite string
	sel      *selWait
	lastRun  int64
	prio     float64
	skipped  int
	isMain   bool
	wakeStep int64
	wgCheck  *wgState // set when woken from WaitGroup.Wait: state is re-read on resume
}

type selWait struct {
	done bool
}

type waiter struct {
	g    *G
	sel  *selWait
	idx  int
	val  interface{}
	tok  unsafe.Pointer
	send bool
}

type chanState struct {
	cap      int
	buf      []bufItem
	closed   bool
	closeTok unsafe.Pointer
	sendq    []*waiter
	recvq    []*waiter
	recvToks []unsafe.Pointer // token of k-th receive (buffered channels, race builds)
	nsend    int
	isTimer  bool
}

type bufItem struct {
	val interface{}
	tok unsafe.Pointer
}

type wgState struct {
	n       int64
	waiters []*G
}

type muState struct {
	locked  bool
	readers int
	waitq   []muWaiter
}

type muWaiter struct {
	g    *G
	read bool
}

// Outcome of a run.
type Outcome int

const (
	OK Outcome = iota
	Deadlock
	Panic
	Hang
)

func (o Outcome) String() string {
	return [...]string{"ok", "deadlock", "panic", "hang"}[o]
}

// GInfo describes a goroutine in reports.
type GInfo struct {
	ID       int    `json:"id"`
	Site     string `json:"site"`
	Status   string `json:"status"`
	ParkedOn string `json:"parked_on,omitempty"`
}

// Entry is one record of the run's history log.
type Entry struct {
	Step int64
	G    int
	Kind string
	ID   int
	A, B int64
	S    string
	V    interface{}
}

// Config of one run.
type Config struct {
	Seed         uint64
	Strategy     string  // random | rtb | pct | starve | default
	PTick        float64 // probability that a due timer fires while goroutines are runnable
	PPreempt     float64
	PCTDepth     int
	StarvePct    int // percentage of goroutine classes starved (starve strategy)
	StarveMax    int // max number of times a starved goroutine is skipped
	Choices      []int32
	Replay       bool
	MaxSteps     int64 // adversarial steps before fair mode is forced
	FairBudget   int64 // steps allowed in fair mode before main must have returned
	PostBudget   int64 // steps allowed after main returned
	Trace        func(string)
	NoAutoFair   bool
	MaxWorkFires int  // >0: at most this many timers fire while goroutines are runnable (bounds exhaustive exploration)
	RecordArity  bool // replay mode: record the number of alternatives at every choice point (exhaustive exploration of litmus programs)
	InitialTime  int64
}

// Result of one run.
type Result struct {
	Outcome        Outcome
	PanicVal       string
	PanicStack     string
	PanicG         GInfo
	Steps          int64
	FairAt         int64
	MainExitAt     int64
	Choices        []int32
	TraceHash      uint64
	Fingerprint    uint64
	Live           []GInfo // goroutines not exited when the run ended
	Spinning       bool    // run ended on PostBudget with runnable goroutines
	Log            []Entry
	SimTime        int64
	Goroutines     int
	TimerFires     int64
	TickDuringWork int64
	SelMultiReady  int64
	SwitchPairs    int
	ClassCount     map[string]int
	Starved        map[string]int
	Marks          map[string]int64
	Arity          []int32 // with Config.RecordArity: alternatives at each choice point, in order
	RaceErrors     int     // detector's error count when the run ended (before unwinding)
}

type sched struct {
	cfg          Config
	rng          rng
	reqCh        chan request
	live         []*G
	nextID       int
	cur          *G
	chans        map[unsafe.Pointer]*chanState
	wgs          map[unsafe.Pointer]*wgState
	mus          map[unsafe.Pointer]*muState
	ctxs         map[unsafe.Pointer]*ctxState
	timers       timerHeap
	tseq         int64
	step         int64
	choices      []int32
	cpos         int
	fair         bool
	fairAt       int64
	mainExited   bool
	mainExitAt   int64
	res          Result
	hash         uint64
	fp           uint64
	sites        map[string]int
	classes      []string
	classN       []int
	pairs        map[[2]int]struct{}
	lastSite     int
	idleFires    int
	pctChange    []int64
	starvedClass map[int]bool
	starveCnt    map[int]int
	marks        map[string]int64
	killing      bool
	candBuf      []*G
	stepWaiters  []*G
	forced       []*G
	lastFire     int64
}

// state shared with running goroutines (plain words, accessed only by the one
// goroutine that holds the baton or by the scheduler while everyone is parked)
var (
	current *G
	theS    *sched
	clock   int64
	stepNow int64
	logBuf  []Entry
	logLen  int
	running bool
	endTok  = new(int64)
)

//go:norace
func curG() *G { return current }

// Run executes main as the main simulated goroutine under cfg.
//
//go:norace
func Run(cfg Config, main func()) *Result {
	if running {
		panic("simrt: nested Run")
	}
	running = true
	defer func() { running = false }()
	if cfg.MaxSteps == 0 {
		cfg.MaxSteps = 60000
	}
	if cfg.FairBudget == 0 {
		cfg.FairBudget = 200000
	}
	if cfg.PostBudget == 0 {
		cfg.PostBudget = 50000
	}
	s := &sched{cfg: cfg, reqCh: make(chan request),
		chans: map[unsafe.Pointer]*chanState{}, wgs: map[unsafe.Pointer]*wgState{}, mus: map[unsafe.Pointer]*muState{},
		ctxs: map[unsafe.Pointer]*ctxState{}, sites: map[string]int{}, pairs: map[[2]int]struct{}{},
		starvedClass: map[int]bool{}, starveCnt: map[int]int{}, marks: map[string]int64{}}
	s.rng.seed(cfg.Seed)
	s.hash = 1469598103934665603
	s.fp = 1469598103934665603
	if cfg.Replay {
		s.choices = cfg.Choices
	}
	if cfg.Strategy == "pct" {
		d := cfg.PCTDepth
		for i := 0; i < d; i++ {
			s.pctChange = append(s.pctChange, int64(s.rng.intn(4000)))
		}
		sort.Slice(s.pctChange, func(i, j int) bool { return s.pctChange[i] < s.pctChange[j] })
	}
	theS = s
	clock = cfg.InitialTime
	stepNow = 0
	logBuf = make([]Entry, 1024)
	logLen = 0
	done := make(chan struct{})
	g0 := s.newG("main")
	g0.isMain = true
	go trampoline(g0, main)
	go func() {
		raceDisable()
		s.loop()
		s.finish()
		raceEnable()
		close(done)
	}()
	<-done
	raceAcquire(unsafe.Pointer(endTok))
	theS = nil
	current = nil
	s.res.Log = logBuf[:logLen]
	logBuf = nil
	return &s.res
}

//go:norace
func (s *sched) newG(site string) *G {
	g := &G{id: s.nextID, site: site, wake: make(chan reply)}
	s.nextID++
	cl, ok := s.sites[site]
	if !ok {
		cl = len(s.classes)
		s.sites[site] = cl
		s.classes = append(s.classes, site)
		s.classN = append(s.classN, 0)
	}
	s.classN[cl]++
	g.class = cl
	g.status = gRunnable
	g.pending = request{g: g, kind: opStart, site: site}
	g.prio = s.rng.float()
	s.live = append(s.live, g)
	s.res.Goroutines++
	return g
}

//go:norace
func trampoline(g *G, fn func()) {
	defer func() {
		r := recover()
		raceReleaseMerge(unsafe.Pointer(endTok))
		if g.dead {
			raceDisable()
			theS.reqCh <- request{g: g, kind: opExitDead}
			raceEnable()
			return
		}
		if r != nil {
			buf := make([]byte, 16384)
			buf = buf[:runtime.Stack(buf, false)]
			msg, stk := fmt.Sprint(r), string(buf)
			raceDisable()
			theS.reqCh <- request{g: g, kind: opPanic, str: msg, val: stk}
			raceEnable()
			return
		}
		raceDisable()
		theS.reqCh <- request{g: g, kind: opExit}
		raceEnable()
	}()
	raceDisable()
	rep := <-g.wake
	raceEnable()
	if rep.dead {
		g.dead = true
		runtime.Goexit()
	}
	fn()
}

type simPanic string

func (e simPanic) Error() string { return string(e) }
func (e simPanic) RuntimeError() {}

// call posts a request and parks until the scheduler lets this goroutine go on.
//
//go:norace
func call(r request) reply {
	g := current
	if g == nil {
		panic("simrt: primitive used outside a simulated goroutine (site " + r.site + ")")
	}
	if g.dead {
		return reply{idx: -1}
	}
	r.g = g
	raceDisable()
	theS.reqCh <- r
	rep := <-g.wake
	raceEnable()
	if rep.dead {
		g.dead = true
		runtime.Goexit()
	}
	if rep.panic != "" {
		panic(simPanic(rep.panic))
	}
	if rep.acq != nil {
		raceAcquire(rep.acq)
	}
	return rep
}

func isImmediate(k opKind) bool { return k >= opGo && k <= opLen }

//go:norace
func (s *sched) loop() {
	for {
		if s.res.Outcome != OK {
			return
		}
		if !s.fair && s.step >= s.cfg.MaxSteps && !s.cfg.NoAutoFair {
			s.enterFair()
		}
		if s.fair && !s.mainExited && s.step-s.fairAt > s.cfg.FairBudget {
			s.res.Outcome = Hang
			return
		}
		if s.mainExited && s.step-s.mainExitAt > s.cfg.PostBudget {
			s.res.Spinning = true
			return
		}
		if len(s.stepWaiters) > 0 {
			s.releaseStepWaiters()
		}
		g, fire := s.choose()
		if fire {
			s.fireNextTimer()
			continue
		}
		if g == nil {
			if !s.mainExited {
				s.res.Outcome = Deadlock
			}
			return
		}
		s.idleFires = 0
		var rep reply
		if g.hasReply {
			rep = g.rep
			g.hasReply = false
			g.rep = reply{}
			if w := g.wgCheck; w != nil {
				g.wgCheck = nil
				if w.n != 0 || len(w.waiters) != 0 {
					s.step++
					stepNow = s.step
					s.note(g, opWGWait, "reused", 0)
					rep.panic = "sync: WaitGroup is reused before previous Wait has returned"
				}
			}
		} else {
			var blocked bool
			s.step++
			stepNow = s.step
			rep, blocked = s.exec(g, &g.pending)
			if blocked {
				g.status = gParked
				g.parkKind = g.pending.kind
				g.parkSite = g.pending.site
				continue
			}
		}
		s.resume(g, rep)
	}
}

//go:norace
func (s *sched) resume(g *G, rep reply) {
	g.lastRun = s.step
	for {
		s.cur = g
		current = g
		g.wake <- rep
		r := <-s.reqCh
		if r.g != g {
			panic(fmt.Sprintf("simrt: request from goroutine %d while %d holds the baton (op %v site %s)", r.g.id, g.id, r.kind, r.site))
		}
		switch {
		case isImmediate(r.kind):
			rep = s.execImmediate(g, &r)
			continue
		case r.kind == opExit:
			s.exitG(g)
			return
		case r.kind == opPanic:
			s.res.Outcome = Panic
			s.res.PanicVal = r.str
			s.res.PanicStack, _ = r.val.(string)
			s.res.PanicG = s.info(g)
			s.note(g, opPanic, r.str, 0)
			s.exitG(g)
			return
		default:
			g.pending = r
			g.status = gRunnable
			return
		}
	}
}

//go:norace
func (s *sched) exitG(g *G) {
	g.status = gExited
	s.note(g, opExit, "", 0)
	for i, x := range s.live {
		if x == g {
			copy(s.live[i:], s.live[i+1:])
			s.live = s.live[:len(s.live)-1]
			break
		}
	}
	if g.isMain {
		s.mainExited = true
		s.mainExitAt = s.step
		s.res.MainExitAt = s.step
		if !s.fair {
			s.enterFair()
		}
	}
	if s.cur == g {
		s.cur = nil
	}
}

//go:norace
func (s *sched) enterFair() {
	if !s.fair {
		s.fair = true
		s.fairAt = s.step
		s.res.FairAt = s.step
	}
}

//go:norace
func (s *sched) info(g *G) GInfo {
	gi := GInfo{ID: g.id, Site: g.site}
	switch g.status {
	case gRunnable:
		gi.Status = "runnable"
		gi.ParkedOn = g.pending.kind.String() + "@" + g.pending.site
	case gParked:
		gi.Status = "parked"
		gi.ParkedOn = g.parkKind.String() + "@" + g.parkSite
	default:
		gi.Status = "exited"
	}
	return gi
}

// finish collects the result and unwinds every goroutine that is still alive.
//
//go:norace
func (s *sched) finish() {
	s.res.Steps = s.step
	s.res.TraceHash = s.hash
	s.res.Fingerprint = s.fp
	s.res.SimTime = clock
	s.res.SwitchPairs = len(s.pairs)
	s.res.Marks = s.marks
	if !s.cfg.Replay {
		s.res.Choices = s.choices
	} else {
		s.res.Choices = s.cfg.Choices
	}
	s.res.ClassCount = map[string]int{}
	for i, c := range s.classes {
		s.res.ClassCount[c] = s.classN[i]
	}
	s.res.Starved = map[string]int{}
	for c, n := range s.starveCnt {
		s.res.Starved[s.classes[c]] = n
	}
	for _, g := range s.live {
		s.res.Live = append(s.res.Live, s.info(g))
	}
	s.res.RaceErrors = RaceErrors()
	s.killing = true
	for _, g := range s.live {
		current = g
		g.wake <- reply{dead: true}
		for {
			r := <-s.reqCh
			if r.g == g && (r.kind == opExitDead || r.kind == opExit || r.kind == opPanic) {
				break
			}
		}
	}
	s.live = nil
}

// releaseStepWaiters makes goroutines parked in WaitStep runnable once the step
// counter has reached their target; the first one is forced to run next.
//
//go:norace
func (s *sched) releaseStepWaiters() {
	for i := 0; i < len(s.stepWaiters); i++ {
		g := s.stepWaiters[i]
		if g.status != gParked {
			copy(s.stepWaiters[i:], s.stepWaiters[i+1:])
			s.stepWaiters = s.stepWaiters[:len(s.stepWaiters)-1]
			i--
			continue
		}
		if g.wakeStep <= s.step {
			copy(s.stepWaiters[i:], s.stepWaiters[i+1:])
			s.stepWaiters = s.stepWaiters[:len(s.stepWaiters)-1]
			i--
			s.wakeG(g, reply{})
			s.forced = append(s.forced, g)
		}
	}
}

// choose returns the next goroutine to run, or fire=true to fire the next timer.
//
//go:norace
func (s *sched) choose() (g *G, fire bool) {
	cands := s.candBuf[:0]
	for _, x := range s.live {
		if x.status == gRunnable {
			cands = append(cands, x)
		}
	}
	s.candBuf = cands[:0]
	for len(s.forced) > 0 {
		g := s.forced[0]
		s.forced = s.forced[1:]
		if g.status == gRunnable {
			return g, false
		}
	}
	if len(cands) == 0 {
		if len(s.timers) > 0 {
			// a pending sleep, one-shot timer or AfterFunc is bound to wake somebody: ticks that
			// fall into a full ticker channel meanwhile are not a sign of a dead system (a
			// goroutine sleeping for seconds next to a millisecond ticker)
			onlyTickers := true
			for _, t := range s.timers {
				if t.kind != tTicker {
					onlyTickers = false
					break
				}
			}
			if !onlyTickers {
				return nil, true
			}
			s.idleFires++
			lim := 2000
			if s.mainExited {
				lim = 64
			}
			if s.idleFires > lim {
				return nil, false
			}
			return nil, true
		}
		return nil, false
	}
	if s.fair {
		// real time passes even while goroutines spin: do not let a busy loop
		// hold back sleepers and tickers for ever
		if len(s.timers) > 0 && s.step-s.lastFire > 3000 {
			s.lastFire = s.step
			return nil, true
		}
		best := cands[0]
		for _, x := range cands[1:] {
			if x.lastRun < best.lastRun {
				best = x
			}
		}
		return best, false
	}
	// order: default pick first (current goroutine if runnable, else lowest id)
	if s.cur != nil && s.cur.status == gRunnable {
		for i, x := range cands {
			if x == s.cur {
				copy(cands[1:i+1], cands[:i])
				cands[0] = x
				break
			}
		}
	}
	timerOK := len(s.timers) > 0
	if s.cfg.MaxWorkFires > 0 && s.res.TickDuringWork >= int64(s.cfg.MaxWorkFires) {
		timerOK = false // bounded exhaustive exploration: time passes during work only so often
	}
	n := len(cands)
	if timerOK {
		n++
	}
	var k int
	if s.cfg.Replay {
		if n > 1 && s.cfg.RecordArity {
			s.res.Arity = append(s.res.Arity, int32(n))
		}
		if n == 1 {
			k = 0
		} else if s.cpos < len(s.choices) {
			k = int(s.choices[s.cpos]) % n
			if k < 0 {
				k = 0
			}
			s.cpos++
		} else {
			k = 0
		}
	} else {
		if n == 1 {
			k = 0
		} else {
			k = s.pick(cands, timerOK)
			s.choices = append(s.choices, int32(k))
		}
	}
	if k == len(cands) {
		s.res.TickDuringWork++
		return nil, true
	}
	return cands[k], false
}

// choice draws a non-scheduling decision (select case, map order) in [0,n).
//
//go:norace
func (s *sched) choice(n int) int {
	if n <= 1 {
		return 0
	}
	if s.cfg.Replay {
		if s.cfg.RecordArity {
			s.res.Arity = append(s.res.Arity, int32(n))
		}
		if s.cpos < len(s.choices) {
			k := int(s.choices[s.cpos]) % n
			s.cpos++
			if k < 0 {
				k = 0
			}
			return k
		}
		return 0
	}
	k := 0
	if s.fair || s.cfg.Strategy == "default" {
		k = 0
		if s.fair {
			k = s.rng.intn(n)
		}
	} else {
		k = s.rng.intn(n)
	}
	s.choices = append(s.choices, int32(k))
	return k
}

//go:norace
func (s *sched) siteID(site string) int {
	id, ok := s.sites[site]
	if !ok {
		id = len(s.classes)
		s.sites[site] = id
		s.classes = append(s.classes, site)
		s.classN = append(s.classN, 0)
	}
	return id
}

// note folds one executed operation into the trace hash / fingerprint and
// emits a trace line when tracing is on.
//
//go:norace
func (s *sched) note(g *G, k opKind, effect string, siteID int) {
	h := s.hash
	h = (h ^ uint64(g.id)) * 1099511628211
	h = (h ^ uint64(k)) * 1099511628211
	h = (h ^ uint64(siteID)) * 1099511628211
	for i := 0; i < len(effect); i++ {
		h = (h ^ uint64(effect[i])) * 1099511628211
	}
	s.hash = h
	f := s.fp
	f = (f ^ uint64(g.class)) * 1099511628211
	f = (f ^ uint64(k)) * 1099511628211
	f = (f ^ uint64(siteID)) * 1099511628211
	if len(effect) > 0 {
		f = (f ^ uint64(effect[0])) * 1099511628211
	}
	s.fp = f
	if siteID != s.lastSite {
		s.pairs[[2]int{s.lastSite, siteID}] = struct{}{}
		s.lastSite = siteID
	}
	if s.cfg.Trace != nil {
		site := ""
		if siteID < len(s.classes) {
			site = s.classes[siteID]
		}
		s.cfg.Trace(fmt.Sprintf("%6d t=%-12d g%-3d(%s) %s %s -> %s", s.step, clock, g.id, g.site, k, site, effect))
	}
}

// FormatLive renders a goroutine list for reports.
func FormatLive(l []GInfo) string {
	var b strings.Builder
	for _, g := range l {
		fmt.Fprintf(&b, "  g%d created at %s: %s %s\n", g.ID, g.Site, g.Status, g.ParkedOn)
	}
	return b.String()
}
