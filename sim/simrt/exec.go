package simrt

import (
	"fmt"
	"unsafe"
)

//go:norace
func (s *sched) chanOf(p unsafe.Pointer, cap int) *chanState {
	c, ok := s.chans[p]
	if !ok {
		c = &chanState{cap: cap}
		s.chans[p] = c
	}
	return c
}

// popWaiter returns the first waiter of q that is still valid.
//
//go:norace
func popWaiter(q *[]*waiter) *waiter {
	for len(*q) > 0 {
		w := (*q)[0]
		(*q)[0] = nil
		*q = (*q)[1:]
		if w.sel != nil && w.sel.done {
			continue
		}
		return w
	}
	return nil
}

//go:norace
func hasWaiter(q []*waiter) bool {
	for _, w := range q {
		if w.sel == nil || !w.sel.done {
			return true
		}
	}
	return false
}

// complete makes a parked goroutine runnable with the given reply.
//
//go:norace
func (s *sched) complete(w *waiter, rep reply) {
	if w.sel != nil {
		w.sel.done = true
		rep.idx = w.idx
	}
	g := w.g
	g.sel = nil
	g.status = gRunnable
	g.hasReply = true
	g.rep = rep
}

//go:norace
func (s *sched) wakeG(g *G, rep reply) {
	g.status = gRunnable
	g.hasReply = true
	g.rep = rep
}

// trySend performs a send if it can complete now.
//
//go:norace
func (s *sched) trySend(c *chanState, val interface{}, tok unsafe.Pointer) (rep reply, ok bool) {
	if c.closed {
		return reply{panic: "send on closed channel"}, true
	}
	if w := popWaiter(&c.recvq); w != nil {
		s.complete(w, reply{val: val, ok: true, acq: tok})
		return reply{acq: w.tok}, true
	}
	if len(c.buf) < c.cap {
		c.buf = append(c.buf, bufItem{val, tok})
		c.nsend++
		var acq unsafe.Pointer
		if raceEnabled && c.nsend > c.cap && c.nsend-c.cap-1 < len(c.recvToks) {
			acq = c.recvToks[c.nsend-c.cap-1]
		}
		return reply{acq: acq}, true
	}
	return reply{}, false
}

//go:norace
func (s *sched) sendReady(c *chanState) bool {
	return c.closed || hasWaiter(c.recvq) || len(c.buf) < c.cap
}

//go:norace
func (s *sched) recvReady(c *chanState) bool {
	return len(c.buf) > 0 || hasWaiter(c.sendq) || c.closed
}

// tryRecv performs a receive if it can complete now.
//
//go:norace
func (s *sched) tryRecv(c *chanState, tok unsafe.Pointer) (rep reply, ok bool) {
	if len(c.buf) > 0 {
		it := c.buf[0]
		c.buf[0] = bufItem{}
		c.buf = c.buf[1:]
		if raceEnabled {
			c.recvToks = append(c.recvToks, tok)
		}
		if w := popWaiter(&c.sendq); w != nil {
			c.buf = append(c.buf, bufItem{w.val, w.tok})
			c.nsend++
			var acq unsafe.Pointer
			if raceEnabled && c.nsend > c.cap && c.nsend-c.cap-1 < len(c.recvToks) {
				acq = c.recvToks[c.nsend-c.cap-1]
			}
			s.complete(w, reply{acq: acq})
		}
		return reply{val: it.val, ok: true, acq: it.tok}, true
	}
	if w := popWaiter(&c.sendq); w != nil {
		s.complete(w, reply{acq: tok})
		return reply{val: w.val, ok: true, acq: w.tok}, true
	}
	if c.closed {
		return reply{val: nil, ok: false, acq: c.closeTok}, true
	}
	return reply{}, false
}

// exec executes a scheduling operation of g. blocked=true means g parks.
//
//go:norace
func (s *sched) exec(g *G, r *request) (rep reply, blocked bool) {
	sid := s.siteID(r.site)
	switch r.kind {
	case opStart, opYield:
		s.note(g, r.kind, "", sid)
		return reply{}, false
	case opSend:
		if r.ch == nil {
			s.note(g, r.kind, "nil:block", sid)
			return reply{}, true
		}
		c := s.chanOf(r.ch, r.chcap)
		rep, ok := s.trySend(c, r.val, r.tok)
		if ok {
			if rep.panic != "" {
				s.note(g, r.kind, "panic", sid)
			} else {
				s.note(g, r.kind, "ok", sid)
			}
			return rep, false
		}
		c.sendq = append(c.sendq, &waiter{g: g, val: r.val, tok: r.tok, send: true})
		s.note(g, r.kind, "block", sid)
		return reply{}, true
	case opRecv:
		if r.ch == nil {
			s.note(g, r.kind, "nil:block", sid)
			return reply{}, true
		}
		c := s.chanOf(r.ch, r.chcap)
		rep, ok := s.tryRecv(c, r.tok)
		if ok {
			if rep.ok {
				s.note(g, r.kind, "ok", sid)
			} else {
				s.note(g, r.kind, "closed", sid)
			}
			return rep, false
		}
		c.recvq = append(c.recvq, &waiter{g: g, tok: r.tok})
		s.note(g, r.kind, "block", sid)
		return reply{}, true
	case opClose:
		if r.ch == nil {
			s.note(g, r.kind, "panic", sid)
			return reply{panic: "close of nil channel"}, false
		}
		c := s.chanOf(r.ch, r.chcap)
		if c.closed {
			s.note(g, r.kind, "panic", sid)
			return reply{panic: "close of closed channel"}, false
		}
		s.closeChan(c, r.tok)
		s.note(g, r.kind, "ok", sid)
		return reply{}, false
	case opSelect:
		return s.execSelect(g, r, sid)
	case opWGAdd:
		w := s.wgOf(r.ch)
		w.n += r.n
		if w.n < 0 {
			s.note(g, r.kind, "panic", sid)
			return reply{panic: "sync: negative WaitGroup counter"}, false
		}
		if w.n == 0 {
			for _, x := range w.waiters {
				s.wakeG(x, reply{})
				// like the runtime, a woken waiter re-reads the state when it resumes and
				// panics if the group has been reused in the meantime
				x.wgCheck = w
			}
			w.waiters = nil
		}
		s.note(g, r.kind, itoa(w.n), sid)
		return reply{}, false
	case opWGWait:
		w := s.wgOf(r.ch)
		if w.n == 0 {
			s.note(g, r.kind, "ok", sid)
			return reply{}, false
		}
		w.waiters = append(w.waiters, g)
		s.note(g, r.kind, "block", sid)
		return reply{}, true
	case opLock, opRLock:
		m := s.muOf(r.ch)
		read := r.kind == opRLock
		if (!read && !m.locked && m.readers == 0) || (read && !m.locked && !writerWaiting(m)) {
			if read {
				m.readers++
			} else {
				m.locked = true
			}
			s.note(g, r.kind, "ok", sid)
			return reply{}, false
		}
		m.waitq = append(m.waitq, muWaiter{g, read})
		s.note(g, r.kind, "block", sid)
		return reply{}, true
	case opWaitStep:
		if r.n <= s.step {
			s.note(g, r.kind, "0", sid)
			return reply{}, false
		}
		g.wakeStep = r.n
		s.stepWaiters = append(s.stepWaiters, g)
		s.note(g, r.kind, "block", sid)
		return reply{}, true
	case opSleep:
		if r.n <= 0 {
			s.note(g, r.kind, "0", sid)
			return reply{}, false
		}
		s.addTimer(&timer{at: clock + r.n, kind: tSleep, g: g})
		s.note(g, r.kind, "block", sid)
		return reply{}, true
	}
	panic("simrt: bad op " + r.kind.String())
}

//go:norace
func writerWaiting(m *muState) bool {
	for _, w := range m.waitq {
		if !w.read {
			return true
		}
	}
	return false
}

//go:norace
func (s *sched) closeChan(c *chanState, tok unsafe.Pointer) {
	c.closed = true
	c.closeTok = tok
	for {
		w := popWaiter(&c.recvq)
		if w == nil {
			break
		}
		s.complete(w, reply{ok: false, acq: tok})
	}
	for {
		w := popWaiter(&c.sendq)
		if w == nil {
			break
		}
		s.complete(w, reply{panic: "send on closed channel"})
	}
}

//go:norace
func (s *sched) execSelect(g *G, r *request, sid int) (reply, bool) {
	var readyBuf [8]int
	ready := readyBuf[:0]
	for i := range r.cases {
		cs := &r.cases[i].c
		if cs.ch == nil {
			continue
		}
		c := s.chanOf(cs.ch, cs.cap)
		if cs.send {
			if s.sendReady(c) {
				ready = append(ready, i)
			}
		} else if s.recvReady(c) {
			ready = append(ready, i)
		}
	}
	if len(ready) == 0 {
		if r.hasDefault {
			s.note(g, opSelect, "default", sid)
			return reply{idx: -1}, false
		}
		sw := &selWait{}
		g.sel = sw
		n := 0
		for i := range r.cases {
			cs := &r.cases[i].c
			if cs.ch == nil {
				continue
			}
			n++
			c := s.chanOf(cs.ch, cs.cap)
			w := &waiter{g: g, sel: sw, idx: i, val: cs.val, tok: r.tok, send: cs.send}
			if cs.send {
				c.sendq = append(c.sendq, w)
			} else {
				c.recvq = append(c.recvq, w)
			}
		}
		s.note(g, opSelect, "block", sid)
		return reply{}, true
	}
	if len(ready) > 1 {
		s.res.SelMultiReady++
	}
	k := ready[s.choice(len(ready))]
	cs := &r.cases[k].c
	c := s.chanOf(cs.ch, cs.cap)
	var rep reply
	if cs.send {
		rep, _ = s.trySend(c, cs.val, r.tok)
	} else {
		rep, _ = s.tryRecv(c, r.tok)
	}
	rep.idx = k
	if s.cfg.Trace != nil {
		s.note(g, opSelect, fmt.Sprintf("case %d of %v", k, ready), sid)
	} else {
		s.note(g, opSelect, string(rune('a'+k)), sid)
	}
	return rep, false
}

//go:norace
func (s *sched) wgOf(p unsafe.Pointer) *wgState {
	w, ok := s.wgs[p]
	if !ok {
		w = &wgState{}
		s.wgs[p] = w
	}
	return w
}

//go:norace
func (s *sched) muOf(p unsafe.Pointer) *muState {
	m, ok := s.mus[p]
	if !ok {
		m = &muState{}
		s.mus[p] = m
	}
	return m
}

//go:norace
func (s *sched) unlock(m *muState, read bool) string {
	if read {
		if m.readers <= 0 {
			return "sync: RUnlock of unlocked RWMutex"
		}
		m.readers--
	} else {
		if !m.locked {
			return "sync: unlock of unlocked mutex"
		}
		m.locked = false
	}
	// grant to waiters in FIFO order
	for len(m.waitq) > 0 {
		w := m.waitq[0]
		if w.read {
			if m.locked {
				break
			}
			m.readers++
		} else {
			if m.locked || m.readers > 0 {
				break
			}
			m.locked = true
		}
		m.waitq = m.waitq[1:]
		s.wakeG(w.g, reply{})
		if !w.read {
			break
		}
	}
	return ""
}

// execImmediate executes an operation that is not a scheduling point.
//
//go:norace
func (s *sched) execImmediate(g *G, r *request) reply {
	switch r.kind {
	case opGo:
		ng := s.newG(r.site)
		s.note(g, opGo, "", ng.class)
		return reply{g: ng}
	case opUnlock, opRUnlock:
		m := s.muOf(r.ch)
		msg := s.unlock(m, r.kind == opRUnlock)
		s.note(g, r.kind, msg, 0)
		return reply{panic: msg}
	case opTimerNew:
		t := &timer{at: clock + r.n, kind: timerKind(r.chcap), ch: r.ch, period: r.n, fn: r.fn, site: r.site}
		if t.kind == tTicker || t.kind == tTimer {
			c := s.chanOf(r.ch, 1)
			c.isTimer = true
		}
		s.addTimer(t)
		return reply{ptr: unsafe.Pointer(t)}
	case opTimerStop:
		t := (*timer)(r.ch)
		was := t.active
		s.delTimer(t)
		return reply{ok: was}
	case opTimerReset:
		t := (*timer)(r.ch)
		was := t.active
		s.delTimer(t)
		t.at = clock + r.n
		if t.kind == tTicker {
			t.period = r.n
		}
		s.addTimer(t)
		return reply{ok: was}
	case opCtxNew:
		return s.ctxNew(r)
	case opCtxCancel:
		return s.ctxCancel(g, r)
	case opCtxErr:
		return s.ctxErr(r)
	case opFair:
		s.enterFair()
		return reply{}
	case opMark:
		s.marks[r.str] += r.n
		return reply{}
	case opLen:
		return reply{n: int64(len(s.chanOf(r.ch, r.chcap).buf))}
	case opPerm:
		n := int(r.n)
		perm := make([]int, n)
		for i := range perm {
			perm[i] = i
		}
		for i := 0; i < n-1; i++ {
			j := i + s.choice(n-i)
			perm[i], perm[j] = perm[j], perm[i]
		}
		return reply{val: perm}
	}
	panic("simrt: bad immediate op")
}

// itoa formats n without touching fmt (whose pooled printers are shared with
// the simulated goroutines and must not be used by the scheduler goroutine,
// which runs with race synchronisation events disabled).
//
//go:norace
func itoa(n int64) string {
	if n == 0 {
		return "0"
	}
	neg := n < 0
	if neg {
		n = -n
	}
	var b [24]byte
	i := len(b)
	for n > 0 {
		i--
		b[i] = byte('0' + n%10)
		n /= 10
	}
	if neg {
		i--
		b[i] = '-'
	}
	return string(b[i:])
}
