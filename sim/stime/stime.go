// Package stime is the simulated counterpart of package time: types and
// constants are re-exported, everything that reads or waits for the clock uses
// the simulated discrete-event clock of package simrt.
package stime

import (
	"time"
	"unsafe"

	"verif/sim/simrt"
)

type (
	Duration = time.Duration
	Time     = time.Time
	Month    = time.Month
	Weekday  = time.Weekday
	Location = time.Location
)

const (
	Nanosecond  = time.Nanosecond
	Microsecond = time.Microsecond
	Millisecond = time.Millisecond
	Second      = time.Second
	Minute      = time.Minute
	Hour        = time.Hour
	RFC3339     = time.RFC3339
	Kitchen     = time.Kitchen
)

var (
	UTC   = time.UTC
	Local = time.Local
)

func Unix(sec, nsec int64) Time                { return time.Unix(sec, nsec) }
func ParseDuration(s string) (Duration, error) { return time.ParseDuration(s) }
func Date(y int, m Month, d, h, mi, s, ns int, l *Location) Time {
	return time.Date(y, m, d, h, mi, s, ns, l)
}

// Now returns the simulated time (each read advances the clock by 1ns).
func Now() Time { return simrt.TimeOf(simrt.NowNS()) }

func Since(t Time) Duration { return Now().Sub(t) }
func Until(t Time) Duration { return t.Sub(Now()) }

func Sleep(d Duration) { simrt.Sleep("time.Sleep", int64(d)) }

// Ticker mirrors time.Ticker.
type Ticker struct {
	C <-chan Time
	c chan Time
	t unsafe.Pointer
}

func NewTicker(d Duration) *Ticker {
	if d <= 0 {
		panic("non-positive interval for NewTicker")
	}
	c := make(chan Time, 1)
	tk := &Ticker{C: c, c: c}
	tk.t = simrt.NewTimer("time.NewTicker", simrt.KTicker, simrt.ChanPtr[chan Time, Time](c), int64(d), nil)
	return tk
}

func (t *Ticker) Stop()            { simrt.StopTimer(t.t) }
func (t *Ticker) Reset(d Duration) { simrt.ResetTimer(t.t, int64(d)) }

func Tick(d Duration) <-chan Time { return NewTicker(d).C }

// Timer mirrors time.Timer.
type Timer struct {
	C <-chan Time
	c chan Time
	t unsafe.Pointer
}

func NewTimer(d Duration) *Timer {
	c := make(chan Time, 1)
	tm := &Timer{C: c, c: c}
	tm.t = simrt.NewTimer("time.NewTimer", simrt.KTimer, simrt.ChanPtr[chan Time, Time](c), int64(d), nil)
	return tm
}

func (t *Timer) Stop() bool            { return simrt.StopTimer(t.t) }
func (t *Timer) Reset(d Duration) bool { return simrt.ResetTimer(t.t, int64(d)) }

func After(d Duration) <-chan Time { return NewTimer(d).C }

func AfterFunc(d Duration, f func()) *Timer {
	tm := &Timer{}
	tm.t = simrt.NewTimer("time.AfterFunc", simrt.KAfterFunc, nil, int64(d), f)
	return tm
}
