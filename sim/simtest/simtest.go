// Package simtest runs ordinary Go tests, rewritten by simrewrite, under the
// simulator with the default fair policy (time advances only when idle).
package simtest

import (
	"os"
	"strconv"
	"testing"

	"verif/sim/simrt"
)

// RunTest runs body as the main simulated goroutine.
func RunTest(t *testing.T, body func()) {
	cfg := simrt.Config{Strategy: "default", MaxSteps: 5_000_000, FairBudget: 5_000_000, PostBudget: 200_000}
	if s := os.Getenv("SIMTEST_SEED"); s != "" {
		n, _ := strconv.ParseUint(s, 10, 64)
		cfg.Seed = n
		cfg.Strategy = "rtb"
		cfg.PPreempt = 0.1
		cfg.PTick = 0.001
	}
	res := simrt.Run(cfg, body)
	switch res.Outcome {
	case simrt.OK:
	case simrt.Panic:
		t.Fatalf("simulated goroutine panicked: %s\n%s", res.PanicVal, res.PanicStack)
	default:
		t.Fatalf("simulation ended with %v after %d steps; goroutines:\n%s", res.Outcome, res.Steps, simrt.FormatLive(res.Live))
	}
}
