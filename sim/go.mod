module verif/sim

go 1.21
