module verif/sim

go 1.21

require golang.org/x/tools v0.29.0
