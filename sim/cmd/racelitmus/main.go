// racelitmus checks that the race detector, fed only with simrt's announced
// happens-before edges, reports unsynchronised accesses between simulated
// goroutines and stays silent for synchronised ones. Build with -race.
package main

import (
	"fmt"
	"os"

	"verif/sim/simrt"
	"verif/sim/ssync"
)

type lit struct {
	name string
	racy bool
	f    func()
}

var x, y, z, w, u, v int

func main() {
	lits := []lit{
		{"unsync write/write", true, func() {
			d := make(chan int, 2)
			simrt.Go("a", func() { x = 1; simrt.Yield("y") })
			simrt.Go("b", func() { simrt.Yield("y"); x = 2 })
			_ = d
			simrt.Yield("m")
			simrt.Yield("m")
			simrt.Yield("m")
		}},
		{"chan send->recv", false, func() {
			c := make(chan int)
			simrt.Go("a", func() { y = 1; simrt.SendOp("s", c)(1) })
			simrt.Recv("r", c)
			y = 2
		}},
		{"unbuffered recv->send completion", false, func() {
			c := make(chan int)
			done := make(chan int)
			simrt.Go("a", func() { simrt.Recv("r", c); simrt.SendOp("d", done)(1) })
			z = 1
			_ = z
			simrt.SendOp("s", c)(1)
			simrt.Recv("d", done)
		}},
		{"close->recv", false, func() {
			c := make(chan int)
			simrt.Go("a", func() { w = 1; simrt.Close("c", c) })
			simrt.Recv("r", c)
			w = 2
		}},
		{"waitgroup", false, func() {
			var wg ssync.WaitGroup
			wg.Add(2)
			simrt.Go("a", func() { u = 1; wg.Done() })
			simrt.Go("b", func() { v = 1; wg.Done() })
			wg.Wait()
			u, v = 2, 2
		}},
		{"mutex", false, func() {
			var mu ssync.Mutex
			var wg ssync.WaitGroup
			n := 0
			for i := 0; i < 3; i++ {
				wg.Add(1)
				simrt.Go("a", func() { mu.Lock(); n++; mu.Unlock(); wg.Done() })
			}
			wg.Wait()
			_ = n
		}},
		{"sent after write by third party (no edge)", true, func() {
			// a writes, b sends on channel, main receives from b then reads: no edge a->main
			c := make(chan int)
			p := new(int)
			simrt.Go("a", func() { *p = 1 })
			simrt.Go("b", func() { simrt.Yield("y"); simrt.SendOp("s", c)(1) })
			simrt.Recv("r", c)
			*p = 2
		}},
		{"buffered chan: send does not wait for recv (racy)", true, func() {
			c := make(chan int, 1)
			p := new(int)
			done := make(chan int)
			simrt.Go("a", func() { simrt.Recv("r", c); *p = 1; simrt.Close("d", done) })
			simrt.SendOp("s", c)(1)
			*p = 2
			simrt.Recv("d", done)
		}},
		{"select recv edge", false, func() {
			c := make(chan int)
			q := make(chan int)
			p := new(int)
			simrt.Go("a", func() { *p = 1; simrt.SendOp("s", c)(1) })
			k, _, _ := simrt.Select("sel", false, simrt.RecvCase(c), simrt.RecvCase(q))
			_ = k
			*p = 2
		}},
	}
	bad := 0
	for _, l := range lits {
		for seed := uint64(0); seed < 20; seed++ {
			before := simrt.RaceErrors()
			r := simrt.Run(simrt.Config{Seed: seed, Strategy: "random"}, l.f)
			got := r.RaceErrors - before
			if r.Outcome != simrt.OK {
				fmt.Println("FAIL outcome", l.name, r.Outcome, r.PanicVal)
				bad++
			}
			if (got > 0) != l.racy {
				// a racy litmus may need a particular order for tsan to see it; require at least one seed
				if l.racy {
					continue
				}
				fmt.Printf("FAIL %q seed %d: races=%d want racy=%v\n", l.name, seed, got, l.racy)
				bad++
			} else if l.racy {
				l.racy = true
				goto next
			}
		}
		if l.racy {
			fmt.Printf("FAIL %q: no race reported in 20 seeds\n", l.name)
			bad++
		}
	next:
	}
	fmt.Println("racelitmus done, failures:", bad, "total race reports:", simrt.RaceErrors())
	if bad > 0 {
		os.Exit(3)
	}
	os.Exit(0)
}
