// Package ssync is the simulated counterpart of package sync: same method
// sets, every blocking operation is a scheduling point of package simrt.
package ssync

import (
	"unsafe"

	"verif/sim/simrt"
)

// WaitGroup mirrors sync.WaitGroup.
type WaitGroup struct{ pad int64 }

func (wg *WaitGroup) Add(delta int) { simrt.WGAdd("wg.Add", unsafe.Pointer(wg), delta) }
func (wg *WaitGroup) Done()         { simrt.WGAdd("wg.Done", unsafe.Pointer(wg), -1) }
func (wg *WaitGroup) Wait()         { simrt.WGWait("wg.Wait", unsafe.Pointer(wg)) }

// Locker mirrors sync.Locker.
type Locker interface {
	Lock()
	Unlock()
}

// Mutex mirrors sync.Mutex.
type Mutex struct{ pad int64 }

func (m *Mutex) Lock()   { simrt.Lock("mu.Lock", unsafe.Pointer(m), false) }
func (m *Mutex) Unlock() { simrt.Unlock("mu.Unlock", unsafe.Pointer(m), false) }
func (m *Mutex) TryLock() bool {
	panic("ssync: TryLock not modelled")
}

// RWMutex mirrors sync.RWMutex.
type RWMutex struct{ pad int64 }

func (m *RWMutex) Lock()    { simrt.Lock("rw.Lock", unsafe.Pointer(m), false) }
func (m *RWMutex) Unlock()  { simrt.Unlock("rw.Unlock", unsafe.Pointer(m), false) }
func (m *RWMutex) RLock()   { simrt.Lock("rw.RLock", unsafe.Pointer(m), true) }
func (m *RWMutex) RUnlock() { simrt.Unlock("rw.RUnlock", unsafe.Pointer(m), true) }

// Once mirrors sync.Once.
type Once struct {
	m    Mutex
	done bool
}

func (o *Once) Do(f func()) {
	o.m.Lock()
	if o.done {
		o.m.Unlock()
		return
	}
	defer func() {
		o.done = true
		o.m.Unlock()
	}()
	f()
}

// Cond mirrors sync.Cond: waiters park on a channel of their own, in arrival order, after
// releasing L; Signal releases the oldest waiter, Broadcast all of them.
type Cond struct {
	L Locker

	m       Mutex
	waiters []chan struct{}
}

func NewCond(l Locker) *Cond { return &Cond{L: l} }

func (c *Cond) Wait() {
	ch := make(chan struct{})
	c.m.Lock()
	c.waiters = append(c.waiters, ch)
	c.m.Unlock()
	c.L.Unlock()
	simrt.Recv("cond.Wait", ch)
	c.L.Lock()
}

func (c *Cond) Signal() {
	c.m.Lock()
	if len(c.waiters) > 0 {
		ch := c.waiters[0]
		c.waiters = c.waiters[1:]
		simrt.Close("cond.Signal", ch)
	}
	c.m.Unlock()
}

func (c *Cond) Broadcast() {
	c.m.Lock()
	for _, ch := range c.waiters {
		simrt.Close("cond.Broadcast", ch)
	}
	c.waiters = nil
	c.m.Unlock()
}
