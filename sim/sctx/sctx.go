// Package sctx is the simulated counterpart of package context. Context is the
// standard interface; cancellation closes a channel of the simrt model, first
// of the context itself and then of each child, one scheduling step each (the
// standard library does the same under separate locks).
package sctx

import (
	"context"
	"time"
	"unsafe"

	"verif/sim/simrt"
	"verif/sim/stime"
)

type (
	Context    = context.Context
	CancelFunc = context.CancelFunc
)

var (
	Canceled         = context.Canceled
	DeadlineExceeded = context.DeadlineExceeded
)

func Background() Context { return context.Background() }
func TODO() Context       { return context.TODO() }

type simCtx struct {
	parent   Context
	done     chan struct{}
	deadline time.Time
	hasDL    bool
	timer    *stime.Timer
}

func (c *simCtx) Deadline() (time.Time, bool) {
	if c.hasDL {
		return c.deadline, true
	}
	return c.parent.Deadline()
}
func (c *simCtx) Done() <-chan struct{} { return c.done }
func (c *simCtx) Err() error {
	switch simrt.CtxErr(unsafe.Pointer(c)) {
	case 1:
		return Canceled
	case 2:
		return DeadlineExceeded
	}
	return nil
}
func (c *simCtx) Value(key interface{}) interface{} { return c.parent.Value(key) }

type valueCtx struct {
	Context
	key, val interface{}
}

func (c *valueCtx) Value(key interface{}) interface{} {
	if c.key == key {
		return c.val
	}
	return c.Context.Value(key)
}

func WithValue(parent Context, key, val interface{}) Context {
	return &valueCtx{parent, key, val}
}

func simParent(p Context) *simCtx {
	for {
		switch x := p.(type) {
		case *simCtx:
			return x
		case *valueCtx:
			p = x.Context
		default:
			if p.Done() != nil {
				panic("sctx: parent context is a real (non-simulated) cancellable context")
			}
			return nil
		}
	}
}

// cancelTree reads a slice built by the scheduler goroutine (which runs with
// race synchronisation disabled), hence norace.
//
//go:norace
func cancelTree(p unsafe.Pointer, code int64) {
	kids := simrt.CtxCancel("ctx.cancel", p, code)
	for _, k := range kids {
		cancelTree(k, code)
	}
}

func newCtx(parent Context) *simCtx {
	if parent == nil {
		panic("cannot create context from nil parent")
	}
	c := &simCtx{parent: parent, done: make(chan struct{})}
	var pp unsafe.Pointer
	if sp := simParent(parent); sp != nil {
		pp = unsafe.Pointer(sp)
	}
	if code := simrt.CtxNew(unsafe.Pointer(c), simrt.ChanPtr[chan struct{}, struct{}](c.done), pp); code != 0 {
		cancelTree(unsafe.Pointer(c), code)
	}
	return c
}

func WithCancel(parent Context) (Context, CancelFunc) {
	c := newCtx(parent)
	return c, func() { cancelTree(unsafe.Pointer(c), 1) }
}

func WithDeadline(parent Context, d time.Time) (Context, CancelFunc) {
	return WithTimeout(parent, stime.Until(d))
}

func WithTimeout(parent Context, d time.Duration) (Context, CancelFunc) {
	c := newCtx(parent)
	c.hasDL = true
	c.deadline = stime.Now().Add(d)
	if d <= 0 {
		cancelTree(unsafe.Pointer(c), 2)
		return c, func() {}
	}
	c.timer = stime.AfterFunc(d, func() { cancelTree(unsafe.Pointer(c), 2) })
	return c, func() {
		c.timer.Stop()
		cancelTree(unsafe.Pointer(c), 1)
	}
}
