// simrewrite instruments Go packages in place so that every concurrency and
// time primitive goes through package simrt:
//
//	go f(x)            -> simrt.Go(site, func(){ f0(a0) }) with operands evaluated first
//	ch <- v            -> simrt.SendOp(site, ch)(v)
//	<-ch               -> simrt.Recv / Recv2
//	close(ch)          -> simrt.Close
//	for x := range ch  -> loop over simrt.RangeFirst / Next
//	for k,v := range m -> loop over simrt.MapRange (scheduler-chosen key order)
//	select             -> simrt.Select + switch
//	import sync/time/context -> verif/sim/{ssync,stime,sctx}
//
// With -tests, test functions are wrapped in simrt.RunTest.
//
// usage: simrewrite [-tests] -dir <module dir> <package patterns...>
package main

import (
	"bytes"
	"flag"
	"fmt"
	"go/ast"
	"go/format"
	"go/token"
	"go/types"
	"os"
	"path/filepath"
	"strconv"
	"strings"

	"golang.org/x/tools/go/ast/astutil"
	"golang.org/x/tools/go/packages"
)

var shimOf = map[string]string{
	"sync":    "verif/sim/ssync",
	"time":    "verif/sim/stime",
	"context": "verif/sim/sctx",
}

func main() {
	dir := flag.String("dir", ".", "module directory")
	tests := flag.Bool("tests", false, "also rewrite _test.go files and wrap Test functions")
	flag.Parse()
	cfg := &packages.Config{
		Mode:  packages.NeedName | packages.NeedFiles | packages.NeedCompiledGoFiles | packages.NeedSyntax | packages.NeedTypes | packages.NeedTypesInfo | packages.NeedImports | packages.NeedDeps,
		Dir:   *dir,
		Tests: *tests,
	}
	pkgs, err := packages.Load(cfg, flag.Args()...)
	if err != nil {
		fatal("load: %v", err)
	}
	nerr := 0
	for _, p := range pkgs {
		for _, e := range p.Errors {
			fmt.Fprintf(os.Stderr, "simrewrite: %s: %v\n", p.ID, e)
			nerr++
		}
	}
	if nerr > 0 {
		fatal("packages have errors")
	}
	// process test variants first: they are supersets of the plain packages
	done := map[string]bool{}
	order := append([]*packages.Package{}, pkgs...)
	for pass := 0; pass < 2; pass++ {
		for _, p := range order {
			isTestVariant := strings.Contains(p.ID, "[")
			if (pass == 0) != isTestVariant {
				continue
			}
			if strings.HasSuffix(p.ID, ".test") {
				continue
			}
			for i, f := range p.Syntax {
				name := p.CompiledGoFiles[i]
				if done[name] || !strings.HasSuffix(name, ".go") {
					continue
				}
				abs, _ := filepath.Abs(name)
				root, _ := filepath.Abs(*dir)
				if !strings.HasPrefix(abs, root+string(filepath.Separator)) {
					continue
				}
				done[name] = true
				rw := &rewriter{fset: p.Fset, info: p.TypesInfo, file: f, base: filepath.Base(name), pkg: p.Types,
					skip: map[ast.Node]bool{}, recvCalls: map[*ast.CallExpr]bool{}}
				rw.rewriteFile(*tests && strings.HasSuffix(name, "_test.go"))
				var buf bytes.Buffer
				if err := format.Node(&buf, p.Fset, f); err != nil {
					fatal("format %s: %v", name, err)
				}
				if err := os.WriteFile(name, buf.Bytes(), 0o644); err != nil {
					fatal("write: %v", err)
				}
				for _, w := range rw.warnings {
					fmt.Fprintf(os.Stderr, "simrewrite: warning: %s\n", w)
				}
				fmt.Printf("rewrote %s: %d sites\n", name, rw.nsites)
			}
		}
	}
}

func fatal(f string, a ...interface{}) {
	fmt.Fprintf(os.Stderr, "simrewrite: "+f+"\n", a...)
	os.Exit(2)
}

type rewriter struct {
	fset        *token.FileSet
	info        *types.Info
	file        *ast.File
	pkg         *types.Package
	base        string
	skip        map[ast.Node]bool
	recvCalls   map[*ast.CallExpr]bool
	nsites      int
	ntmp        int
	needSimrt   bool
	needSimtest bool
	warnings    []string
}

func (rw *rewriter) site(n ast.Node) *ast.BasicLit {
	rw.nsites++
	rw.needSimrt = true
	pos := rw.fset.Position(n.Pos())
	return &ast.BasicLit{Kind: token.STRING, Value: strconv.Quote(fmt.Sprintf("%s:%d", rw.base, pos.Line))}
}

func (rw *rewriter) tmp(prefix string) *ast.Ident {
	rw.ntmp++
	return ast.NewIdent(fmt.Sprintf("_sim%s%d", prefix, rw.ntmp))
}

func sel(name string) ast.Expr {
	return &ast.SelectorExpr{X: ast.NewIdent("simrt"), Sel: ast.NewIdent(name)}
}

func call(fun ast.Expr, args ...ast.Expr) *ast.CallExpr {
	return &ast.CallExpr{Fun: fun, Args: args}
}

func unparen(e ast.Expr) ast.Expr {
	for {
		p, ok := e.(*ast.ParenExpr)
		if !ok {
			return e
		}
		e = p.X
	}
}

func isRecvExpr(e ast.Expr) *ast.UnaryExpr {
	if u, ok := unparen(e).(*ast.UnaryExpr); ok && u.Op == token.ARROW {
		return u
	}
	return nil
}

// constOrNil reports whether e can be left in place (no evaluation-order concern
// and no default-type problem): constants and the predeclared nil.
func (rw *rewriter) constOrNil(e ast.Expr) bool {
	if tv, ok := rw.info.Types[e]; ok {
		if tv.Value != nil || tv.IsNil() {
			return true
		}
	}
	return false
}

func (rw *rewriter) isChan(e ast.Expr) bool {
	if tv, ok := rw.info.Types[e]; ok && tv.Type != nil {
		_, ok := tv.Type.Underlying().(*types.Chan)
		return ok
	}
	return false
}

func (rw *rewriter) isBuiltin(e ast.Expr, name string) bool {
	id, ok := unparen(e).(*ast.Ident)
	if !ok || id.Name != name {
		return false
	}
	_, isb := rw.info.Uses[id].(*types.Builtin)
	return isb
}

func (rw *rewriter) rewriteFile(wrapTests bool) {
	// imports
	for _, imp := range rw.file.Imports {
		path, _ := strconv.Unquote(imp.Path.Value)
		if shim, ok := shimOf[path]; ok {
			if imp.Name == nil {
				imp.Name = ast.NewIdent(path)
			}
			imp.Path.Value = strconv.Quote(shim)
			imp.EndPos = 0
		}
	}
	astutil.Apply(rw.file, rw.pre, rw.post)
	if wrapTests {
		rw.wrapTests()
	}
	if rw.needSimrt {
		astutil.AddNamedImport(rw.fset, rw.file, "simrt", "verif/sim/simrt")
	}
	if rw.needSimtest {
		astutil.AddNamedImport(rw.fset, rw.file, "simtest", "verif/sim/simtest")
	}
}

func (rw *rewriter) pre(c *astutil.Cursor) bool {
	switch n := c.Node().(type) {
	case *ast.SelectStmt:
		for _, cl := range n.Body.List {
			cc := cl.(*ast.CommClause)
			switch s := cc.Comm.(type) {
			case *ast.SendStmt:
				rw.skip[s] = true
			case *ast.ExprStmt:
				if u := isRecvExpr(s.X); u != nil {
					rw.skip[u] = true
				}
			case *ast.AssignStmt:
				if len(s.Rhs) == 1 {
					if u := isRecvExpr(s.Rhs[0]); u != nil {
						rw.skip[u] = true
					}
				}
			}
		}
	}
	return true
}

func (rw *rewriter) post(c *astutil.Cursor) bool {
	switch n := c.Node().(type) {
	case *ast.SendStmt:
		if rw.skip[n] {
			return true
		}
		c.Replace(&ast.ExprStmt{X: call(call(sel("SendOp"), rw.site(n), n.Chan), n.Value)})
	case *ast.UnaryExpr:
		if n.Op != token.ARROW || rw.skip[n] {
			return true
		}
		ce := call(sel("Recv"), rw.site(n), n.X)
		rw.recvCalls[ce] = true
		c.Replace(ce)
	case *ast.AssignStmt:
		if len(n.Lhs) == 2 && len(n.Rhs) == 1 {
			if ce, ok := unparen(n.Rhs[0]).(*ast.CallExpr); ok && rw.recvCalls[ce] {
				ce.Fun = sel("Recv2")
			}
		}
	case *ast.ValueSpec:
		if len(n.Names) == 2 && len(n.Values) == 1 {
			if ce, ok := unparen(n.Values[0]).(*ast.CallExpr); ok && rw.recvCalls[ce] {
				ce.Fun = sel("Recv2")
			}
		}
	case *ast.CallExpr:
		if len(n.Args) == 1 && rw.isBuiltin(n.Fun, "close") {
			c.Replace(call(sel("Close"), rw.site(n), n.Args[0]))
		} else if len(n.Args) == 1 && rw.isBuiltin(n.Fun, "len") && rw.isChan(n.Args[0]) {
			rw.needSimrt = true
			c.Replace(call(sel("Len"), n.Args[0]))
		}
	case *ast.GoStmt:
		c.Replace(rw.goStmt(n))
	case *ast.RangeStmt:
		if r := rw.rangeStmt(n); r != nil {
			c.Replace(r)
		}
	case *ast.SelectStmt:
		lbl := ""
		if ls, ok := c.Parent().(*ast.LabeledStmt); ok {
			lbl = ls.Label.Name
		}
		repl := rw.selectStmt(n, lbl)
		if lbl != "" {
			// the label must stay on the switch: move it inside the block
			ls := c.Parent().(*ast.LabeledStmt)
			rw.skip[ls] = true
		}
		c.Replace(repl)
	case *ast.LabeledStmt:
		if rw.skip[n] {
			// label was moved onto the generated switch
			c.Replace(n.Stmt)
		}
	}
	return true
}

// goSite labels a go statement with file:line(enclosing function), so that
// goroutine classes can be recognised independently of line shifts.
func (rw *rewriter) goSite(n ast.Node) *ast.BasicLit {
	lit := rw.site(n)
	name := ""
	for _, d := range rw.file.Decls {
		if fd, ok := d.(*ast.FuncDecl); ok && fd.Pos() <= n.Pos() && n.End() <= fd.End() {
			name = fd.Name.Name
		}
	}
	s, _ := strconv.Unquote(lit.Value)
	lit.Value = strconv.Quote(s + "(" + name + ")")
	return lit
}

func (rw *rewriter) goStmt(n *ast.GoStmt) ast.Stmt {
	site := rw.goSite(n)
	ce := n.Call
	if fl, ok := unparen(ce.Fun).(*ast.FuncLit); ok && len(ce.Args) == 0 {
		return &ast.ExprStmt{X: call(sel("Go"), site, fl)}
	}
	var lhs, rhs []ast.Expr
	f := rw.tmp("f")
	lhs = append(lhs, f)
	rhs = append(rhs, ce.Fun)
	var args []ast.Expr
	for _, a := range ce.Args {
		if rw.constOrNil(a) {
			args = append(args, a)
			continue
		}
		t := rw.tmp("a")
		lhs = append(lhs, t)
		rhs = append(rhs, a)
		args = append(args, t)
	}
	inner := &ast.CallExpr{Fun: f, Args: args, Ellipsis: ce.Ellipsis}
	if ce.Ellipsis != token.NoPos {
		inner.Ellipsis = 1
	}
	body := &ast.FuncLit{Type: &ast.FuncType{Params: &ast.FieldList{}}, Body: &ast.BlockStmt{List: []ast.Stmt{&ast.ExprStmt{X: inner}}}}
	return &ast.BlockStmt{List: []ast.Stmt{
		&ast.AssignStmt{Lhs: lhs, Tok: token.DEFINE, Rhs: rhs},
		&ast.ExprStmt{X: call(sel("Go"), site, body)},
	}}
}

func isBlank(e ast.Expr) bool {
	if e == nil {
		return true
	}
	id, ok := e.(*ast.Ident)
	return ok && id.Name == "_"
}

func (rw *rewriter) rangeStmt(n *ast.RangeStmt) ast.Stmt {
	tv, ok := rw.info.Types[n.X]
	if !ok || tv.Type == nil {
		return nil
	}
	switch t := tv.Type.Underlying().(type) {
	case *types.Chan:
		// for v, ok, it := simrt.RangeFirst(site, ch); ok; v, ok = it.Next() { [x = v;] body }
		site := rw.site(n)
		okID, it := rw.tmp("ok"), rw.tmp("it")
		var v ast.Expr = ast.NewIdent("_")
		var pre []ast.Stmt
		if !isBlank(n.Key) {
			if n.Tok == token.DEFINE {
				v = n.Key
			} else {
				tv := rw.tmp("v")
				v = tv
				pre = append(pre, &ast.AssignStmt{Lhs: []ast.Expr{n.Key}, Tok: token.ASSIGN, Rhs: []ast.Expr{tv}})
			}
		}
		body := n.Body
		if len(pre) > 0 {
			body = &ast.BlockStmt{List: append(pre, n.Body.List...)}
		}
		return &ast.ForStmt{
			Init: &ast.AssignStmt{Lhs: []ast.Expr{v, okID, it}, Tok: token.DEFINE, Rhs: []ast.Expr{call(sel("RangeFirst"), site, n.X)}},
			Cond: okID,
			Post: &ast.AssignStmt{Lhs: []ast.Expr{v, okID}, Tok: token.ASSIGN, Rhs: []ast.Expr{call(&ast.SelectorExpr{X: it, Sel: ast.NewIdent("Next")})}},
			Body: body,
		}
	case *types.Map:
		if b, ok := t.Key().Underlying().(*types.Basic); !ok || b.Info()&(types.IsOrdered) == 0 {
			pos := rw.fset.Position(n.Pos())
			rw.warnings = append(rw.warnings, fmt.Sprintf("%s:%d: range over map with unordered key type %s left as is (iteration order not controlled)", rw.base, pos.Line, t.Key()))
			return nil
		}
		// for it := simrt.MapRange(site, m); it.Next(); { k, v := it.Key(), it.Val(); body }
		site := rw.site(n)
		it := rw.tmp("it")
		var lhs, rhs []ast.Expr
		if !isBlank(n.Key) {
			lhs = append(lhs, n.Key)
			rhs = append(rhs, call(&ast.SelectorExpr{X: it, Sel: ast.NewIdent("Key")}))
		}
		if !isBlank(n.Value) {
			lhs = append(lhs, n.Value)
			rhs = append(rhs, call(&ast.SelectorExpr{X: it, Sel: ast.NewIdent("Val")}))
		}
		body := n.Body
		if len(lhs) > 0 {
			body = &ast.BlockStmt{List: append([]ast.Stmt{&ast.AssignStmt{Lhs: lhs, Tok: n.Tok, Rhs: rhs}}, n.Body.List...)}
		}
		return &ast.ForStmt{
			Init: &ast.AssignStmt{Lhs: []ast.Expr{it}, Tok: token.DEFINE, Rhs: []ast.Expr{call(sel("MapRange"), site, n.X)}},
			Cond: call(&ast.SelectorExpr{X: it, Sel: ast.NewIdent("Next")}),
			Body: body,
		}
	}
	return nil
}

func (rw *rewriter) selectStmt(n *ast.SelectStmt, label string) ast.Stmt {
	site := rw.site(n)
	var stmts []ast.Stmt
	var cases []ast.Expr
	var clauses []ast.Stmt
	hasDefault := false
	k, rv, rok := rw.tmp("k"), rw.tmp("rv"), rw.tmp("rok")
	idx := 0
	for _, cl := range n.Body.List {
		cc := cl.(*ast.CommClause)
		if cc.Comm == nil {
			hasDefault = true
			clauses = append(clauses, &ast.CaseClause{Body: cc.Body})
			continue
		}
		var body []ast.Stmt
		switch s := cc.Comm.(type) {
		case *ast.SendStmt:
			ct := rw.tmp("c")
			stmts = append(stmts, &ast.AssignStmt{Lhs: []ast.Expr{ct}, Tok: token.DEFINE, Rhs: []ast.Expr{s.Chan}})
			var val ast.Expr = s.Value
			if !rw.constOrNil(s.Value) {
				vt := rw.tmp("v")
				stmts = append(stmts, &ast.AssignStmt{Lhs: []ast.Expr{vt}, Tok: token.DEFINE, Rhs: []ast.Expr{s.Value}})
				val = vt
			}
			cases = append(cases, call(call(sel("SendCase"), ct), val))
		case *ast.ExprStmt:
			u := isRecvExpr(s.X)
			if u == nil {
				fatal("%s: unsupported select case", rw.fset.Position(s.Pos()))
			}
			ct := rw.tmp("c")
			stmts = append(stmts, &ast.AssignStmt{Lhs: []ast.Expr{ct}, Tok: token.DEFINE, Rhs: []ast.Expr{u.X}})
			cases = append(cases, call(sel("RecvCase"), ct))
		case *ast.AssignStmt:
			u := isRecvExpr(s.Rhs[0])
			if u == nil {
				fatal("%s: unsupported select case", rw.fset.Position(s.Pos()))
			}
			ct := rw.tmp("c")
			stmts = append(stmts, &ast.AssignStmt{Lhs: []ast.Expr{ct}, Tok: token.DEFINE, Rhs: []ast.Expr{u.X}})
			cases = append(cases, call(sel("RecvCase"), ct))
			rhs := []ast.Expr{call(sel("RecvVal"), ct, rv)}
			if len(s.Lhs) == 2 {
				rhs = append(rhs, rok)
			}
			allBlank := true
			for _, l := range s.Lhs {
				if !isBlank(l) {
					allBlank = false
				}
			}
			if !allBlank {
				body = append(body, &ast.AssignStmt{Lhs: s.Lhs, Tok: s.Tok, Rhs: rhs})
			}
		default:
			fatal("%s: unsupported select case", rw.fset.Position(cc.Pos()))
		}
		body = append(body, cc.Body...)
		clauses = append(clauses, &ast.CaseClause{List: []ast.Expr{&ast.BasicLit{Kind: token.INT, Value: strconv.Itoa(idx)}}, Body: body})
		idx++
	}
	hd := ast.NewIdent("false")
	if hasDefault {
		hd = ast.NewIdent("true")
	} else {
		// keeps the switch a terminating statement exactly when the select was one
		clauses = append(clauses, &ast.CaseClause{Body: []ast.Stmt{&ast.ExprStmt{X: call(ast.NewIdent("panic"), call(sel("BadSelect")))}}})
	}
	args := append([]ast.Expr{site, hd}, cases...)
	stmts = append(stmts,
		&ast.AssignStmt{Lhs: []ast.Expr{k, rv, rok}, Tok: token.DEFINE, Rhs: []ast.Expr{call(sel("Select"), args...)}},
		&ast.AssignStmt{Lhs: []ast.Expr{ast.NewIdent("_"), ast.NewIdent("_")}, Tok: token.ASSIGN, Rhs: []ast.Expr{rv, rok}},
	)
	var sw ast.Stmt = &ast.SwitchStmt{Tag: k, Body: &ast.BlockStmt{List: clauses}}
	if label != "" {
		sw = &ast.LabeledStmt{Label: ast.NewIdent(label), Stmt: sw}
	}
	stmts = append(stmts, sw)
	return &ast.BlockStmt{List: stmts}
}

// wrapTests turns `func TestX(t *testing.T) { body }` into
// `func TestX(t *testing.T) { simrt.RunTest(t, func() { body }) }`.
func (rw *rewriter) wrapTests() {
	for _, d := range rw.file.Decls {
		fd, ok := d.(*ast.FuncDecl)
		if !ok || fd.Recv != nil || fd.Body == nil || !strings.HasPrefix(fd.Name.Name, "Test") {
			continue
		}
		if fd.Type.Params == nil || len(fd.Type.Params.List) != 1 || len(fd.Type.Params.List[0].Names) != 1 {
			continue
		}
		if fd.Name.Name == "TestMain" {
			continue
		}
		t := fd.Type.Params.List[0].Names[0]
		rw.needSimtest = true
		inner := &ast.FuncLit{Type: &ast.FuncType{Params: &ast.FieldList{}}, Body: fd.Body}
		fd.Body = &ast.BlockStmt{List: []ast.Stmt{&ast.ExprStmt{X: call(&ast.SelectorExpr{X: ast.NewIdent("simtest"), Sel: ast.NewIdent("RunTest")}, ast.NewIdent(t.Name), inner)}}}
	}
}
