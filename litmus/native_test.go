package litmus

import (
	"testing"

	"verif/litmus/progs"
)

// TestNative runs every litmus program on the real Go runtime: each observed
// outcome must be one the specification allows (the same Want the simulator's
// exhaustive exploration must match exactly).
func TestNative(t *testing.T) {
	for _, p := range progs.All {
		if p.NoNative {
			continue
		}
		n := 3000
		if p.Slow {
			n = 10
		}
		for _, name := range []string{"ticker-drops-when-full", "timer-stop", "context-timeout", "select-default-race"} {
			if p.Name == name {
				n = 20
			}
		}
		want := map[string]bool{}
		for _, w := range p.Want {
			want[w] = true
		}
		seen := map[string]int{}
		for i := 0; i < n; i++ {
			seen[p.Fn()]++
		}
		for o := range seen {
			if !want[o] {
				t.Errorf("%s: native outcome %q is not in the allowed set %v", p.Name, o, p.Want)
			}
		}
		t.Logf("%-36s native outcomes %v", p.Name, seen)
	}
}
