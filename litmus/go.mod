module verif/litmus

go 1.21
