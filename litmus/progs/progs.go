// Package progs holds the litmus programs that validate the simulator: tiny
// concurrent Go programs, each returning an outcome string, together with the
// exact set of outcomes the Go specification and memory model allow. They are
// ordinary Go: the native test runs them on the real runtime (outcomes must be
// a subset of Want), the simulated test instruments this very file with
// simrewrite and explores ALL schedules (outcomes must equal Want).
package progs

import (
	"context"
	"fmt"
	"sort"
	"sync"
	"time"
)

// Prog is one litmus program.
type Prog struct {
	Name     string
	Fn       func() string
	Want     []string
	Deadlock bool // the program (also) has schedules that end in a global deadlock (simulator only)
	NoNative bool // cannot run natively (deadlocks / runtime-fatal)
	Slow     bool // sleeps in real time when run natively: few native iterations
}

func catch(f func()) (msg string) {
	defer func() {
		if r := recover(); r != nil {
			msg = fmt.Sprint(r)
		}
	}()
	f()
	return "ok"
}

// All is the suite.
var All = []Prog{
	{Name: "unbuffered-handoff", Want: []string{"1 true"}, Fn: func() string {
		c := make(chan int)
		flag := false
		go func() { flag = true; c <- 1 }()
		v := <-c
		return fmt.Sprint(v, " ", flag)
	}},
	{Name: "unbuffered-send-blocks-until-recv", Want: []string{"recv-first"}, Fn: func() string {
		c := make(chan int)
		done := make(chan string, 2)
		go func() { c <- 1; done <- "sent" }()
		<-c
		done <- "recv-first"
		// the sender can only report after the receive has happened; but both reports race:
		// only assert that the receive completed
		return "recv-first"
	}},
	{Name: "buffered-two-senders", Want: []string{"ab", "ba"}, Fn: func() string {
		c := make(chan string, 1)
		var wg sync.WaitGroup
		wg.Add(2)
		go func() { c <- "a"; wg.Done() }()
		go func() { c <- "b"; wg.Done() }()
		x := <-c
		y := <-c
		wg.Wait()
		return x + y
	}},
	{Name: "buffered-fifo", Want: []string{"123"}, Fn: func() string {
		c := make(chan int, 3)
		go func() {
			c <- 1
			c <- 2
			c <- 3
			close(c)
		}()
		s := ""
		for v := range c {
			s += fmt.Sprint(v)
		}
		return s
	}},
	{Name: "select-two-ready", Want: []string{"a", "b"}, Fn: func() string {
		a, b := make(chan int, 1), make(chan int, 1)
		a <- 1
		b <- 1
		select {
		case <-a:
			return "a"
		case <-b:
			return "b"
		}
	}},
	{Name: "select-default-race", Want: []string{"default", "recv"}, Fn: func() string {
		c := make(chan int)
		var wg sync.WaitGroup
		wg.Add(1)
		go func() {
			defer wg.Done()
			c <- 1
		}()
		var r string
		select {
		case <-c:
			r = "recv"
		default:
			r = "default"
		}
		if r == "default" {
			<-c
		}
		wg.Wait()
		return r
	}},
	{Name: "select-nil-never-ready", Want: []string{"b"}, Fn: func() string {
		var a chan int
		b := make(chan int, 1)
		b <- 1
		select {
		case <-a:
			return "a"
		case a <- 1:
			return "a-send"
		case <-b:
			return "b"
		}
	}},
	{Name: "select-send-and-recv", Want: []string{"main-sent", "main-received"}, Fn: func() string {
		c := make(chan int)
		res := make(chan string, 1)
		go func() {
			select {
			case c <- 1:
			case <-c:
			}
		}()
		select {
		case c <- 2:
			res <- "main-sent"
		case <-c:
			res <- "main-received"
		}
		return <-res
	}},
	{Name: "close-wakes-all", Want: []string{"0 false 0 false"}, Fn: func() string {
		c := make(chan int)
		out := make(chan string, 2)
		for i := 0; i < 2; i++ {
			go func() { v, ok := <-c; out <- fmt.Sprint(v, " ", ok) }()
		}
		close(c)
		return <-out + " " + <-out
	}},
	{Name: "closed-drains-buffer-first", Want: []string{"7 true 0 false"}, Fn: func() string {
		c := make(chan int, 1)
		c <- 7
		close(c)
		v1, ok1 := <-c
		v2, ok2 := <-c
		return fmt.Sprint(v1, " ", ok1, " ", v2, " ", ok2)
	}},
	{Name: "send-on-closed-panics", Want: []string{"send on closed channel"}, Fn: func() string {
		c := make(chan int, 1)
		close(c)
		return catch(func() { c <- 1 })
	}},
	{Name: "close-twice-panics", Want: []string{"close of closed channel"}, Fn: func() string {
		c := make(chan int)
		close(c)
		return catch(func() { close(c) })
	}},
	{Name: "close-nil-panics", Want: []string{"close of nil channel"}, Fn: func() string {
		var c chan int
		return catch(func() { close(c) })
	}},
	{Name: "close-vs-blocked-sender", Want: []string{"received", "send on closed channel"}, Fn: func() string {
		// a sender is either served by the receiver or hit by the close
		c := make(chan int)
		res := make(chan string, 1)
		go func() { res <- catch(func() { c <- 1 }) }()
		got := make(chan bool, 1)
		go func() {
			select {
			case _, ok := <-c:
				got <- ok
			case <-time.After(time.Hour):
				got <- false
			}
		}()
		if <-got {
			<-res
			return "received"
		}
		close(c)
		return <-res
	}},
	{Name: "waitgroup-waits", Want: []string{"3"}, Fn: func() string {
		var wg sync.WaitGroup
		var mu sync.Mutex
		n := 0
		for i := 0; i < 3; i++ {
			wg.Add(1)
			go func() { mu.Lock(); n++; mu.Unlock(); wg.Done() }()
		}
		wg.Wait()
		return fmt.Sprint(n)
	}},
	{Name: "waitgroup-negative-panics", Want: []string{"sync: negative WaitGroup counter"}, Fn: func() string {
		var wg sync.WaitGroup
		return catch(func() { wg.Done() })
	}},
	{Name: "waitgroup-reuse-panics", Want: []string{"ok", "sync: WaitGroup is reused before previous Wait has returned"}, NoNative: true, Fn: func() string {
		// a waiter woken at zero re-reads the state when it resumes: an Add in between makes it panic
		// (natively the runtime may also report the misuse from the Add side; the simulator models the waiter side)
		var wg sync.WaitGroup
		wg.Add(1)
		res := make(chan string, 1)
		go func() { res <- catch(func() { wg.Wait() }) }()
		wg.Done()
		wg.Add(1)
		wg.Done()
		return <-res
	}},
	{Name: "mutex-excludes", Want: []string{"2"}, Fn: func() string {
		var mu sync.Mutex
		var wg sync.WaitGroup
		n := 0
		tick := make(chan int, 4)
		for i := 0; i < 2; i++ {
			wg.Add(1)
			go func() {
				mu.Lock()
				v := n
				tick <- 1 // a scheduling point inside the critical section
				n = v + 1
				mu.Unlock()
				wg.Done()
			}()
		}
		wg.Wait()
		return fmt.Sprint(n)
	}},
	{Name: "lost-update-without-lock", Want: []string{"1", "2"}, Fn: func() string {
		var wg sync.WaitGroup
		var mu sync.Mutex // protects n against the race detector only; the read-modify-write is not atomic
		n := 0
		tick := make(chan int, 4)
		for i := 0; i < 2; i++ {
			wg.Add(1)
			go func() {
				mu.Lock()
				v := n
				mu.Unlock()
				tick <- 1
				mu.Lock()
				n = v + 1
				mu.Unlock()
				wg.Done()
			}()
		}
		wg.Wait()
		return fmt.Sprint(n)
	}},
	{Name: "once-runs-once", Want: []string{"1"}, Fn: func() string {
		var once sync.Once
		var wg sync.WaitGroup
		var mu sync.Mutex
		n := 0
		for i := 0; i < 2; i++ {
			wg.Add(1)
			go func() { once.Do(func() { mu.Lock(); n++; mu.Unlock() }); wg.Done() }()
		}
		wg.Wait()
		return fmt.Sprint(n)
	}},
	{Name: "context-tree", Want: []string{"child:context canceled parent:<nil> | child:context canceled parent:context canceled"}, Fn: func() string {
		parent, pc := context.WithCancel(context.Background())
		child, cc := context.WithCancel(parent)
		cc()
		<-child.Done()
		s := fmt.Sprintf("child:%v parent:%v", child.Err(), parent.Err())
		pc()
		<-parent.Done()
		return s + fmt.Sprintf(" | child:%v parent:%v", child.Err(), parent.Err())
	}},
	{Name: "context-parent-cancels-children", Want: []string{"context canceled context canceled"}, Fn: func() string {
		parent, pc := context.WithCancel(context.Background())
		c1, cancel1 := context.WithCancel(parent)
		c2, cancel2 := context.WithCancel(c1)
		defer cancel1()
		defer cancel2()
		go pc()
		<-c2.Done()
		<-c1.Done()
		return fmt.Sprint(c1.Err(), " ", c2.Err())
	}},
	{Name: "context-already-cancelled-parent", Want: []string{"context canceled"}, Fn: func() string {
		parent, pc := context.WithCancel(context.Background())
		pc()
		c, cancel := context.WithCancel(parent)
		defer cancel()
		<-c.Done()
		return fmt.Sprint(c.Err())
	}},
	{Name: "context-timeout", Want: []string{"context deadline exceeded"}, Fn: func() string {
		c, cancel := context.WithTimeout(context.Background(), time.Millisecond)
		defer cancel()
		<-c.Done()
		return fmt.Sprint(c.Err())
	}},
	{Name: "cancel-vs-work", Want: []string{"cancelled", "worked"}, Fn: func() string {
		ctx, cancel := context.WithCancel(context.Background())
		work := make(chan int, 1)
		go func() { work <- 1 }()
		go cancel()
		// both may be ready: either is legal, and one of them must eventually be
		select {
		case <-work:
			return "worked"
		case <-ctx.Done():
			return "cancelled"
		}
	}},
	{Name: "timers-fire-in-order", Want: []string{"true"}, Fn: func() string {
		// short is armed first: whatever time passes between the two statements, it is due earlier
		short := time.After(5 * time.Millisecond)
		long := time.After(20 * time.Millisecond)
		t1 := <-short
		t2 := <-long
		return fmt.Sprint(!t2.Before(t1) && t2.Sub(t1) >= 14*time.Millisecond)
	}, Slow: true},
	{Name: "ticker-drops-when-full", Want: []string{"1"}, Fn: func() string {
		t := time.NewTicker(time.Millisecond)
		time.Sleep(20 * time.Millisecond)
		t.Stop()
		n := 0
		for {
			select {
			case <-t.C:
				n++
				continue
			default:
			}
			break
		}
		return fmt.Sprint(n)
	}},
	{Name: "timer-stop", Want: []string{"true no-fire"}, Fn: func() string {
		t := time.NewTimer(10 * time.Millisecond)
		stopped := t.Stop()
		time.Sleep(30 * time.Millisecond)
		select {
		case <-t.C:
			return fmt.Sprint(stopped, " fired")
		default:
			return fmt.Sprint(stopped, " no-fire")
		}
	}},
	{Name: "sleep-lasts-at-least", Want: []string{"true"}, Fn: func() string {
		t0 := time.Now()
		time.Sleep(30 * time.Millisecond)
		return fmt.Sprint(time.Since(t0) >= 30*time.Millisecond)
	}, Slow: true},
	{Name: "map-range-order", Want: []string{"ab", "ba"}, Fn: func() string {
		m := map[int]string{1: "a", 2: "b"}
		s := ""
		for _, v := range m {
			s += v
		}
		return s
	}},
	{Name: "three-goroutine-interleavings", Want: []string{"abc", "acb", "bac", "bca", "cab", "cba"}, Fn: func() string {
		c := make(chan string, 3)
		var wg sync.WaitGroup
		for _, s := range []string{"a", "b", "c"} {
			s := s
			wg.Add(1)
			go func() { c <- s; wg.Done() }()
		}
		wg.Wait()
		return <-c + <-c + <-c
	}},
	{Name: "go-args-evaluated-at-go", Want: []string{"1"}, Fn: func() string {
		x := 1
		c := make(chan int, 1)
		go func(v int) { c <- v }(x)
		x = 2
		_ = x
		return fmt.Sprint(<-c)
	}},
	{Name: "actor-op-or-done", Want: []string{"applied", "dropped"}, Fn: func() string {
		// the shape of every mpb bar method: send a closure to the actor or see its context done
		ops := make(chan func(), 0)
		ctx, cancel := context.WithCancel(context.Background())
		state := "dropped"
		exited := make(chan struct{})
		go func() {
			defer close(exited)
			for {
				select {
				case op := <-ops:
					op()
				case <-ctx.Done():
					return
				}
			}
		}()
		go cancel()
		select {
		case ops <- func() { state = "applied" }:
		case <-ctx.Done():
		}
		<-exited
		return state
	}},
	{Name: "deadlock-two-receivers", Want: []string{}, Deadlock: true, NoNative: true, Fn: func() string {
		c := make(chan int)
		go func() { <-c }()
		<-c
		return "unreachable"
	}},
	{Name: "rwmutex-readers-share", Want: []string{"2"}, Fn: func() string {
		var rw sync.RWMutex
		var wg sync.WaitGroup
		in := make(chan int, 2)
		rel := make(chan int)
		for i := 0; i < 2; i++ {
			wg.Add(1)
			go func() { rw.RLock(); in <- 1; <-rel; rw.RUnlock(); wg.Done() }()
		}
		<-in
		<-in // both readers are inside at once
		n := 2
		close(rel)
		wg.Wait()
		rw.Lock()
		rw.Unlock()
		return fmt.Sprint(n)
	}},
}

// Sorted returns a sorted copy.
func Sorted(s []string) []string {
	out := append([]string{}, s...)
	sort.Strings(out)
	return out
}
