// simrun explores ALL schedules of every litmus program under simrt (DFS over
// the choice list; feasible because the programs are tiny) and compares the
// set of outcomes with the set the Go specification allows.
package main

import (
	"fmt"
	"os"
	"sort"

	"verif/litmus/progs"
	"verif/sim/simrt"
)

func main() {
	bad := 0
	totalRuns := 0
	for _, p := range progs.All {
		outcomes := map[string]int{}
		deadlocks := 0
		var prefix []int32
		runs := 0
		for {
			var out string
			finished := false
			res := simrt.Run(simrt.Config{Replay: true, Choices: prefix, RecordArity: true, MaxSteps: 100000, NoAutoFair: true, MaxWorkFires: 2}, func() {
				out = p.Fn()
				finished = true
			})
			runs++
			switch res.Outcome {
			case simrt.OK:
				if finished {
					outcomes[out]++
				}
			case simrt.Deadlock:
				deadlocks++
			case simrt.Panic:
				outcomes["PANIC: "+res.PanicVal]++
			default:
				outcomes["HANG"]++
			}
			// next schedule in DFS order
			chosen := make([]int32, len(res.Arity))
			copy(chosen, prefix)
			i := len(chosen) - 1
			for i >= 0 && chosen[i]+1 >= res.Arity[i] {
				i--
			}
			if i < 0 {
				break
			}
			prefix = append(append([]int32{}, chosen[:i]...), chosen[i]+1)
			if runs > 2000000 {
				outcomes["TOO-MANY-SCHEDULES"]++
				break
			}
		}
		totalRuns += runs
		var got []string
		for o := range outcomes {
			got = append(got, o)
		}
		sort.Strings(got)
		want := progs.Sorted(p.Want)
		ok := fmt.Sprint(got) == fmt.Sprint(want) && (deadlocks > 0) == p.Deadlock
		status := "ok  "
		if !ok {
			status = "FAIL"
			bad++
		}
		fmt.Printf("%s %-36s schedules=%-7d deadlocks=%-5d outcomes=%v want=%v\n", status, p.Name, runs, deadlocks, got, want)
	}
	fmt.Printf("litmus: %d programs, %d schedules explored exhaustively, %d mismatches\n", len(progs.All), totalRuns, bad)
	if bad > 0 {
		os.Exit(1)
	}
}
