// Package h is the in-simulation half of the harness: the scenario language,
// its interpreter and the probes (spy / probe decorators, fillers, extenders,
// output recorder, stream stubs). It is copied into the scratch copy of mpb
// and instrumented by simrewrite together with the library, so the client
// goroutines it starts are simulated goroutines like the library's own.
package h

// Refresh modes.
const (
	RefAuto = iota
	RefManual
	RefNone
)

// ContainerSpec describes the container options of a scenario.
type ContainerSpec struct {
	Refresh        int      `json:"refresh"`
	RateNS         int64    `json:"rate_ns,omitempty"`
	Terminal       bool     `json:"terminal,omitempty"`
	TermW          int      `json:"term_w,omitempty"`
	TermH          int      `json:"term_h,omitempty"`
	Resizes        []Resize `json:"resizes,omitempty"`
	Width          int      `json:"width,omitempty"`    // WithWidth (0: not set)
	QueueLen       int      `json:"queue_len"`          // -1: library default
	Pop            bool     `json:"pop,omitempty"`      // PopCompletedMode
	Delay          bool     `json:"delay,omitempty"`    // WithRenderDelay
	Notifier       int      `json:"notifier,omitempty"` // 0 none, 1 unbuffered, 2 buffered
	UserWG         bool     `json:"user_wg,omitempty"`  // WithWaitGroup
	NoReadNotifier bool     `json:"no_read_notifier,omitempty"`
	Anon           bool     `json:"anon,omitempty"` // anonymous bars: every bar's marker says "B0" (bars in the same state look byte for byte alike); the log still knows who is who
}

// Resize changes the simulated terminal's size from the k-th size query on.
type Resize struct {
	AtQuery int `json:"at"`
	W       int `json:"w"`
	H       int `json:"h"`
}

// Filler kinds.
const (
	FillBar = iota
	FillSpinner
	FillNil
	FillProbe
)

// BarSpec describes one bar.
type BarSpec struct {
	Total      int64     `json:"total"`
	HasPrio    bool      `json:"has_prio,omitempty"`
	Prio       int       `json:"prio,omitempty"`
	HasID      bool      `json:"has_id,omitempty"`
	ID         int       `json:"id,omitempty"`
	RmOnComp   bool      `json:"rm,omitempty"`
	NoPop      bool      `json:"nopop,omitempty"`
	Trim       bool      `json:"trim,omitempty"`
	Width      int       `json:"width,omitempty"`
	QueueAfter int       `json:"queue_after"` // bar index, -1 none
	Filler     int       `json:"filler,omitempty"`
	ExtRows    int       `json:"ext_rows,omitempty"`
	ExtNoNL    bool      `json:"ext_no_nl,omitempty"` // the extender's output ends with an unterminated piece of text (which is not a row)
	ExtRev     bool      `json:"ext_rev,omitempty"`
	Pre        []DecSpec `json:"pre,omitempty"`
	App        []DecSpec `json:"app,omitempty"`
	NoSpy      bool      `json:"no_spy,omitempty"`
	OptVariant     int   `json:"opt_variant,omitempty"`      // != 0: options go through the BarOptional/BarOptOn/BarFuncOpt* wrappers, with disabled decoys and nil options in between
	FillOnComplete bool  `json:"fill_on_complete,omitempty"` // BarFillerOnComplete(FillMsg(...))
	FillOnAbort    bool  `json:"fill_on_abort,omitempty"`    // BarFillerOnAbort(FillMsg(...))
}

// Decorator kinds.
const (
	DecProbe = iota
	DecElapsed
	DecAvgSpeed
	DecAvgETA
	DecEwmaSpeed
	DecEwmaETA
	DecCounters
	DecPercentage
	DecName
	DecTotal
	DecCurrent
	DecNil          // no decorator at all: a nil entry, or a conditional constructor whose condition is false
	DecLibEwmaSpeed // decor.EwmaSpeed(unit, fmt, age): the library's own moving average (age = DecSpec.Age)
	DecLibEwmaETA   // decor.EwmaETA(style, age)
	DecInvCurrent   // decor.InvertedCurrent(unit, fmt): what is left, total - current
)

// Wrapper kinds.
const (
	WrapOnComplete = iota
	WrapOnAbort
	WrapOnCompleteOrOnAbort
	WrapMeta
	WrapOnCompleteMeta
	WrapOnAbortMeta
	WrapOnCompleteMetaOrOnAbortMeta
)

// DecSpec describes one decorator.
type DecSpec struct {
	Kind     int    `json:"kind"`
	W        int    `json:"w,omitempty"`
	C        int    `json:"c,omitempty"`
	Wrap     []int  `json:"wrap,omitempty"` // innermost first
	Text     int    `json:"text,omitempty"` // index into Texts
	Vary     int    `json:"vary,omitempty"` // 0 fixed, 1 by current, 2 by call number
	Listener bool   `json:"listener,omitempty"`
	Ewma     bool   `json:"ewma,omitempty"`
	Style    int    `json:"style,omitempty"` // time style / size unit
	Fmt      string `json:"fmt,omitempty"`
	Age      int    `json:"age,omitempty"`
	Mark     bool   `json:"mark,omitempty"` // wrap the output in {tag=...} so that it can be found in the row
	Cond     int    `json:"cond,omitempty"`     // 1..4: built through OnCondition / OnPredicate / Conditional / Predicative (selecting this decorator)
	Slow     int    `json:"slow,omitempty"`     // > 0: the Slow-th Decor call takes SlowNS of (simulated) time: a slow but healthy decorator
	SlowNS   int64  `json:"slow_ns,omitempty"`
	PreInit  bool   `json:"pre_init,omitempty"` // the WC passed to the constructor is a copy of one shared, already initialised style value
	StartOff int64  `json:"start_off,omitempty"` // > 0: Elapsed / AverageSpeed / AverageETA are built by their New... constructors with a start time this many ns in the past (a resumed task)
	TSafe    bool   `json:"tsafe,omitempty"`     // the recording average is handed over inside decor.NewThreadSafeMovingAverage
	ShutGet  bool   `json:"shut_get,omitempty"` // a shutdown listener that asks its own bar for its state from OnShutdown ("aborted at 42/100")
}

// Texts used by probe decorators (index = DecSpec.Text); width varies.
var Texts = []string{"", "a", "ab", "abc", "hello", "世", "世界", "é", "wide世界x", "0123456789", " ", "x y"}

// Op kinds.
const (
	OpAdd = iota
	OpIncr
	OpIncrBy
	OpIncrement
	OpEwmaIncr
	OpEwmaIncrBy
	OpEwmaIncrement
	OpSetCurrent
	OpEwmaSetCurrent
	OpSetTotal
	OpEnableTrigger
	OpSetRefill
	OpAbort
	OpSetPriority
	OpUpdatePriority
	OpWrite
	OpCurrent
	OpCompleted
	OpAborted
	OpPair // Completed() then Aborted()
	OpIsRunning
	OpID
	OpBarWait
	OpRefresh
	OpCloseDelay
	OpCancel
	OpShutdown
	OpSleep
	OpReadNotifier
	OpProxy
	OpWait
	OpJoin // main: wait for all clients
	OpFair // switch to the fair suffix
	OpTraverse
	OpPairAC // Aborted() then Completed()
	OpAvgAdjust
	OpSpawn     // main: start client N (clients not spawned explicitly start before main's ops)
	OpJoinFirst // main: wait for clients 0..N-1
	OpCloseRefresh // close the manual refresh channel (no refresh request is sent afterwards)
	nOps
)

var OpNames = [...]string{"Add", "IncrInt64", "IncrBy", "Increment", "EwmaIncrInt64", "EwmaIncrBy", "EwmaIncrement", "SetCurrent",
	"EwmaSetCurrent", "SetTotal", "EnableTriggerComplete", "SetRefill", "Abort", "SetPriority", "UpdateBarPriority", "Write",
	"Current", "Completed", "Aborted", "Completed+Aborted", "IsRunning", "ID", "BarWait", "Refresh", "CloseDelay", "CancelCtx",
	"Shutdown", "Sleep", "ReadNotifier", "Proxy", "Wait", "Join", "Fair", "TraverseDecorators", "Aborted+Completed", "DecoratorAverageAdjust", "Spawn", "JoinFirst", "CloseRefreshChannel"}

// Op is one client operation.
type Op struct {
	K      int         `json:"k"`
	Bar    int         `json:"bar,omitempty"`
	N      int64       `json:"n,omitempty"`
	D      int64       `json:"d,omitempty"`
	Flag   bool        `json:"flag,omitempty"`
	S      string      `json:"s,omitempty"`
	Stream *StreamSpec `json:"stream,omitempty"`
}

// StreamSpec describes a copy through a proxy reader or writer.
type StreamSpec struct {
	Writer    bool    `json:"writer,omitempty"` // ProxyWriter instead of ProxyReader
	HasClose  bool    `json:"has_close,omitempty"`
	HasFast   bool    `json:"has_fast,omitempty"` // stub implements WriterTo / ReaderFrom
	UseCopy   bool    `json:"use_copy,omitempty"` // io.Copy instead of explicit loop
	Len       int     `json:"len"`                // bytes in the source stream
	Chunks    []int   `json:"chunks,omitempty"`   // n returned by the k-th stub call (cycled); 0 allowed
	BufSizes  []int   `json:"bufs,omitempty"`     // buffer sizes of the explicit loop (cycled)
	Latency   []int64 `json:"latency,omitempty"`  // simulated ns per stub call (cycled)
	FailAt    int     `json:"fail_at,omitempty"`  // stub call (1-based) that fails; 0 never
	FailWithN bool    `json:"fail_with_n,omitempty"`
	CloseErr  bool    `json:"close_err,omitempty"`
	DoClose   bool    `json:"do_close,omitempty"`
	Seed      uint64  `json:"seed,omitempty"`
}

// Fault sites.
const (
	FaultOutWrite = iota
	FaultOutShort
	FaultFill
	FaultExt
	FaultTermSize
)

var FaultNames = [...]string{"out_write_error", "out_short_write", "fill_error", "extender_error", "termsize_error"}

// Fault is one planned fault: the K-th (1-based) call at the site fails.
type Fault struct {
	Site int `json:"site"`
	Bar  int `json:"bar,omitempty"`
	K    int `json:"k"`
	Err  int `json:"err,omitempty"` // which error value the failing call returns (FaultErr)
}

// SchedSpec selects the search strategy of a run.
type SchedSpec struct {
	Strategy  string  `json:"strategy"`
	PTick     float64 `json:"p_tick,omitempty"`
	PPreempt  float64 `json:"p_preempt,omitempty"`
	PCTDepth  int     `json:"pct_depth,omitempty"`
	StarvePct int     `json:"starve_pct,omitempty"`
	StarveMax int     `json:"starve_max,omitempty"`
	MaxSteps  int64   `json:"max_steps,omitempty"`
	FairSteps int64   `json:"fair_steps,omitempty"`
}

// Scenario is one generated client program plus configuration.
type Scenario struct {
	Prop    string        `json:"prop"`
	Mode    string        `json:"mode,omitempty"`
	Seed    uint64        `json:"seed"`
	Cont    ContainerSpec `json:"cont"`
	Bars    []BarSpec     `json:"bars"`
	Initial []int         `json:"initial,omitempty"` // bars added by main before clients start
	Main    []Op          `json:"main,omitempty"`    // ops of main before Wait
	Post    []Op          `json:"post,omitempty"`    // ops of main after Wait
	Clients [][]Op        `json:"clients,omitempty"`
	Faults  []Fault       `json:"faults,omitempty"`
	NoWait  bool          `json:"no_wait,omitempty"`
	Serial  int           `json:"serial,omitempty"` // C16: run the program this many times in sequence (0/1: once)
	Steady  []int64       `json:"steady,omitempty"` // C20 steady-rate scenarios: [items per sample, ns per item]
	Sched   SchedSpec     `json:"sched"`
	// cancel injection (C14): a canceller goroutine acts at scheduling step InjectAt
	InjectAt   int64 `json:"inject_at,omitempty"`
	InjectKind int   `json:"inject_kind,omitempty"` // 1 cancel ctx, 2 Shutdown
}

// Log entry kinds.
const (
	EvInvoke   = "op+"
	EvReturn   = "op-"
	EvSkip     = "skip"
	EvWrite    = "w"
	EvDebug    = "dbg"
	EvSpy      = "spy"
	EvFormat   = "fmt"
	EvFill     = "fill"
	EvExt      = "ext"
	EvShutdown = "sd"
	EvEwma     = "ewma"
	EvTermSize = "ts"
	EvNotified = "notif"
	EvFault    = "fault"
	EvWaitIn   = "wait+"
	EvWaitOut  = "wait-"
	EvFinal    = "final"
	EvEnd      = "end"
	EvStream   = "stream"
	EvPhase    = "phase"
	EvDecor    = "decor"
	EvAvgAdj   = "avgadj"
	EvDecNew   = "decnew"
	EvAvgAdd   = "avg.add"
	EvServed   = "served" // the container goroutine is building bar ID (inside Progress.Add's request)
)

// SpyRec is the value of an EvSpy entry.
type SpyRec struct {
	Bar       int
	ID        int
	Current   int64
	Total     int64
	Refill    int64
	Completed bool
	Aborted   bool
	Avail     int
	ReqWidth  int
	T         int64 // simulated time of the Decor call
}

// FmtRec is the value of an EvFormat entry (one Format call of a probe decorator).
type FmtRec struct {
	Bar, Side, Ord int // Ord: index within the side's decorator list
	Text           string
	W, C           int
	Out            string
	OutW           int
}

// FinalRec is the value of an EvFinal entry (getters read at the end of the run).
type FinalRec struct {
	Bar       int
	Current   int64
	Completed bool
	Aborted   bool
	Running   bool
	ID        int
}

// StreamRec is the value of an EvStream entry: one call on a stream stub or proxy.
type StreamRec struct {
	Side string // "stub" or "proxy"
	Call string // Read, Write, Close, WriteTo, ReadFrom
	N    int64
	Err  string
	Data []byte
	Dur  int64
}

// EwmaRec is the value of an EvEwma entry.
type EwmaRec struct {
	Bar, Side, Ord int
	N              int64
	Dur            int64
}
