package h

import (
	"errors"
	"fmt"
	"io"
	"os"
	"strings"
	"sync"
	"syscall"
	"time"

	simrt "verif/sim/simrt"

	"github.com/VividCortex/ewma"
	"github.com/vbauerster/mpb/v8"
	"github.com/vbauerster/mpb/v8/decor"
)

// ---------------------------------------------------------------------------
// spy decorator: first prepend decorator of every bar; records the Statistics
// it is handed and returns a self-identifying marker.

type spyDec struct {
	decor.WC
	bar  int
	anon bool
}

func newSpy(bar int, anon bool) decor.Decorator {
	d := &spyDec{bar: bar, anon: anon}
	d.WC = (&decor.WC{}).Init()
	return d
}

// SpyMarker is the text a spy returns for the given state.
func SpyMarker(bar int, cur, tot int64, completed, aborted bool) string {
	f := "R"
	switch {
	case completed && aborted:
		f = "CA"
	case completed:
		f = "C"
	case aborted:
		f = "A"
	}
	return fmt.Sprintf("B%d:%d/%d:%s;", bar, cur, tot, f)
}

func (d *spyDec) Decor(s decor.Statistics) (string, int) {
	simrt.Log(simrt.Entry{Kind: EvSpy, ID: d.bar, A: s.Current, B: s.Total, V: SpyRec{Bar: d.bar, ID: s.ID, Current: s.Current, Total: s.Total,
		Refill: s.Refill, Completed: s.Completed, Aborted: s.Aborted, Avail: s.AvailableWidth, ReqWidth: s.RequestedWidth, T: simrt.PeekNS()}})
	shown := d.bar
	if d.anon {
		shown = 0
	}
	return d.Format(SpyMarker(shown, s.Current, s.Total, s.Completed, s.Aborted))
}

// ---------------------------------------------------------------------------
// probe decorators

type probeDec struct {
	decor.WC
	bar, side, ord int
	spec           DecSpec
	calls          int
	adjusting      bool
}

// AverageAdjust makes every probe decorator an AverageDecorator. The library calls it from
// Bar.DecoratorAverageAdjust, atomically with respect to rendering: a Decor call that finds the
// adjustment half done (the yield lets any other goroutine run in between) is logged.
func (d *probeDec) AverageAdjust(start time.Time) {
	d.adjusting = true
	simrt.Log(simrt.Entry{Kind: EvAvgAdj, ID: d.bar, A: int64(d.side), B: int64(d.ord), S: "begin"})
	simrt.Yield("probe.AverageAdjust")
	simrt.Log(simrt.Entry{Kind: EvAvgAdj, ID: d.bar, A: int64(d.side), B: int64(d.ord), S: "end"})
	d.adjusting = false
}

// ProbeText is the text the probe decorator (bar, side, ord) returns on its
// n-th Decor call (1-based) for the given current value.
func ProbeText(spec DecSpec, bar, side, ord int, current int64, n int) string {
	base := Texts[spec.Text%len(Texts)]
	tag := fmt.Sprintf("%c%d.%d", "pa"[side], bar, ord)
	switch spec.Vary {
	case 1:
		return tag + base + strings.Repeat("+", int(uint64(current)%5))
	case 2:
		return tag + base + strings.Repeat("~", n%4)
	}
	return tag + base
}

func (d *probeDec) Decor(s decor.Statistics) (string, int) {
	d.calls++
	if d.spec.Slow > 0 && d.calls == d.spec.Slow {
		time.Sleep(time.Duration(d.spec.SlowNS))
	}
	if d.adjusting {
		simrt.Log(simrt.Entry{Kind: EvAvgAdj, ID: d.bar, A: int64(d.side), B: int64(d.ord), S: "overlap"})
	}
	simrt.Log(simrt.Entry{Kind: EvDecor, ID: d.bar, A: int64(d.side), B: int64(d.ord)})
	return d.Format(ProbeText(d.spec, d.bar, d.side, d.ord, s.Current, d.calls))
}

func (d *probeDec) Format(str string) (string, int) {
	out, w := d.WC.Format(str)
	simrt.Log(simrt.Entry{Kind: EvFormat, ID: d.bar, V: FmtRec{Bar: d.bar, Side: d.side, Ord: d.ord, Text: str, W: d.W, C: d.C, Out: out, OutW: w}})
	return out, w
}

func (d *probeDec) onShutdown() {
	if d.spec.ShutGet {
		shutBars.mu.Lock()
		var b *mpb.Bar
		if d.bar < len(shutBars.bars) {
			b = shutBars.bars[d.bar]
		}
		shutBars.mu.Unlock()
		if b != nil {
			// the getters of a bar are documented to work at any time, from any goroutine
			cur, comp, ab := b.Current(), b.Completed(), b.Aborted()
			simrt.Log(simrt.Entry{Kind: EvShutdown, ID: d.bar, A: int64(d.side), B: int64(d.ord), S: fmt.Sprintf("%d/%v/%v", cur, comp, ab)})
			return
		}
	}
	simrt.Log(simrt.Entry{Kind: EvShutdown, ID: d.bar, A: int64(d.side), B: int64(d.ord)})
}

// shutBars publishes bar handles to the ShutGet listeners (only used when the scenario has one).
var shutBars struct {
	mu   sync.Mutex
	on   bool
	bars []*mpb.Bar
}

func initShutBars(sc *Scenario) {
	shutBars.on = false
	shutBars.bars = make([]*mpb.Bar, len(sc.Bars))
	for i := range sc.Bars {
		for _, l := range [][]DecSpec{sc.Bars[i].Pre, sc.Bars[i].App} {
			for _, d := range l {
				if d.ShutGet {
					shutBars.on = true
				}
			}
		}
	}
}

func (d *probeDec) ewmaUpdate(n int64, dur time.Duration) {
	simrt.Log(simrt.Entry{Kind: EvEwma, ID: d.bar, V: EwmaRec{Bar: d.bar, Side: d.side, Ord: d.ord, N: n, Dur: int64(dur)}})
}

type probeDecL struct{ *probeDec }

func (d probeDecL) OnShutdown() { d.onShutdown() }

type probeDecE struct{ *probeDec }

func (d probeDecE) EwmaUpdate(n int64, dur time.Duration) { d.ewmaUpdate(n, dur) }

type probeDecLE struct{ *probeDec }

func (d probeDecLE) OnShutdown()                           { d.onShutdown() }
func (d probeDecLE) EwmaUpdate(n int64, dur time.Duration) { d.ewmaUpdate(n, dur) }

// recording moving average handed to the built-in ewma decorators
type recAverage struct {
	bar, side, ord int
	val            float64
}

func (a *recAverage) Add(v float64) {
	simrt.Log(simrt.Entry{Kind: EvAvgAdd, ID: a.bar, A: int64(a.side), B: int64(a.ord), V: v})
	a.val = v
}
func (a *recAverage) Value() float64 { return a.val }
func (a *recAverage) Set(v float64)  { a.val = v }

var metaFn = func(s string) string { return "\x1b[1m" + s + "\x1b[0m" }

// WrapMsg is the message used by the on-complete / on-abort wrappers.
func WrapMsg(kind, bar, side, ord int) string {
	switch kind {
	case WrapOnComplete:
		return fmt.Sprintf("done%d.%d", bar, ord)
	case WrapOnAbort:
		return fmt.Sprintf("abrt%d.%d", bar, ord)
	default:
		return fmt.Sprintf("fin%d.%d", bar, ord)
	}
}

func sizeUnit(style int) interface{} {
	switch style % 3 {
	case 1:
		return decor.SizeB1024(0)
	case 2:
		return decor.SizeB1000(0)
	}
	return 0
}

// sharedStyles holds one initialised WC value per (W, C) of the scenario's PreInit decorators: a
// program that keeps "style := decor.WC{...}; style.Init()" around and passes it to many constructors.
// Written by the main goroutine before the container exists, read-only afterwards.
var sharedStyles map[[2]int]decor.WC

func initSharedStyles(sc *Scenario) {
	sharedStyles = map[[2]int]decor.WC{}
	for i := range sc.Bars {
		for _, l := range [][]DecSpec{sc.Bars[i].Pre, sc.Bars[i].App} {
			for _, d := range l {
				if _, ok := sharedStyles[[2]int{d.W, d.C}]; d.PreInit && !ok {
					wc := decor.WC{W: d.W, C: d.C}
					wc.Init()
					sharedStyles[[2]int{d.W, d.C}] = wc
				}
			}
		}
	}
}

// recAvg is the recording average of a moving-average decorator, as it is or inside the library's
// thread-safe wrapper.
func recAvg(spec DecSpec, bar, side, ord int) ewma.MovingAverage {
	a := &recAverage{bar: bar, side: side, ord: ord}
	if spec.TSafe {
		return decor.NewThreadSafeMovingAverage(a)
	}
	return a
}

func buildDecorator(spec DecSpec, bar, side, ord int) decor.Decorator {
	wc := decor.WC{W: spec.W, C: spec.C}
	if spec.PreInit {
		wc = sharedStyles[[2]int{spec.W, spec.C}]
	}
	var d decor.Decorator
	if spec.Kind == DecNil {
		decoy := decor.Name("DECOY!")
		switch spec.Style % 3 {
		case 1:
			return decor.OnCondition(decoy, false)
		case 2:
			return decor.OnPredicate(decoy, func() bool { return false })
		}
		return nil
	}
	if spec.Kind != DecProbe {
		simrt.Log(simrt.Entry{Kind: EvDecNew, ID: bar, A: int64(side), B: int64(ord), V: simrt.PeekNS()})
	}
	switch spec.Kind {
	case DecProbe:
		pd := &probeDec{bar: bar, side: side, ord: ord, spec: spec}
		pd.WC = wc.Init()
		switch {
		case spec.Listener && spec.Ewma:
			d = probeDecLE{pd}
		case spec.Listener:
			d = probeDecL{pd}
		case spec.Ewma:
			d = probeDecE{pd}
		default:
			d = pd
		}
	case DecElapsed:
		if spec.StartOff > 0 {
			d = decor.NewElapsed(decor.TimeStyle(spec.Style%4), time.Now().Add(-time.Duration(spec.StartOff)), wc)
		} else {
			d = decor.Elapsed(decor.TimeStyle(spec.Style%4), wc)
		}
	case DecAvgSpeed:
		if spec.StartOff > 0 {
			d = decor.NewAverageSpeed(sizeUnit(spec.Style), spec.Fmt, time.Now().Add(-time.Duration(spec.StartOff)), wc)
		} else {
			d = decor.AverageSpeed(sizeUnit(spec.Style), spec.Fmt, wc)
		}
	case DecAvgETA:
		if spec.StartOff > 0 {
			d = decor.NewAverageETA(decor.TimeStyle(spec.Style%4), time.Now().Add(-time.Duration(spec.StartOff)), nil, wc)
		} else {
			d = decor.AverageETA(decor.TimeStyle(spec.Style%4), wc)
		}
	case DecEwmaSpeed:
		d = decor.MovingAverageSpeed(sizeUnit(spec.Style), spec.Fmt, recAvg(spec, bar, side, ord), wc)
	case DecEwmaETA:
		if spec.Age == 1 {
			// nil average: the library's own median-of-three window
			d = decor.MovingAverageETA(decor.TimeStyle(spec.Style%4), nil, nil, wc)
		} else {
			d = decor.MovingAverageETA(decor.TimeStyle(spec.Style%4), recAvg(spec, bar, side, ord), nil, wc)
		}
	case DecInvCurrent:
		d = decor.InvertedCurrent(sizeUnit(spec.Style), spec.Fmt, wc)
	case DecLibEwmaSpeed:
		d = decor.EwmaSpeed(sizeUnit(spec.Style), spec.Fmt, float64(spec.Age), wc)
	case DecLibEwmaETA:
		d = decor.EwmaETA(decor.TimeStyle(spec.Style%4), float64(spec.Age), wc)
	case DecCounters:
		d = decor.Counters(sizeUnit(spec.Style), spec.Fmt, wc)
	case DecPercentage:
		d = decor.NewPercentage(spec.Fmt, wc)
	case DecName:
		d = decor.Name(Texts[spec.Text%len(Texts)], wc)
	case DecTotal:
		d = decor.Total(sizeUnit(spec.Style), spec.Fmt, wc)
	case DecCurrent:
		d = decor.Current(sizeUnit(spec.Style), spec.Fmt, wc)
	default:
		panic("harness: unknown decorator kind")
	}
	for _, w := range spec.Wrap {
		switch w {
		case WrapOnComplete:
			d = decor.OnComplete(d, WrapMsg(w, bar, side, ord))
		case WrapOnAbort:
			d = decor.OnAbort(d, WrapMsg(w, bar, side, ord))
		case WrapOnCompleteOrOnAbort:
			d = decor.OnCompleteOrOnAbort(d, WrapMsg(w, bar, side, ord))
		case WrapMeta:
			d = decor.Meta(d, metaFn)
		case WrapOnCompleteMeta:
			d = decor.OnCompleteMeta(d, metaFn)
		case WrapOnAbortMeta:
			d = decor.OnAbortMeta(d, metaFn)
		case WrapOnCompleteMetaOrOnAbortMeta:
			d = decor.OnCompleteMetaOrOnAbortMeta(d, metaFn)
		}
	}
	switch spec.Cond {
	case 1:
		d = decor.OnCondition(d, true)
	case 2:
		d = decor.OnPredicate(d, func() bool { return true })
	case 3:
		d = decor.Conditional(false, decor.Name("DECOY!"), d)
	case 4:
		d = decor.Predicative(func() bool { return false }, decor.Name("DECOY!"), d)
	}
	if spec.Mark {
		tag := MarkTag(bar, side, ord)
		d = decor.Meta(d, func(s string) string { return "{" + tag + "=" + s + "}" })
	}
	return d
}

// MarkTag is the tag of a marked decorator's field.
func MarkTag(bar, side, ord int) string { return fmt.Sprintf("%c%d.%d", "pa"[side], bar, ord) }

// ---------------------------------------------------------------------------
// fault plan

type faults struct {
	plan []Fault // read-only after construction
}

// ErrInjected is the error returned by every injected fault.
var ErrInjected = errors.New("injected-fault-error")

func newFaults(plan []Fault) *faults { return &faults{plan: plan} }

// hit reports whether the k-th call (1-based) at one of the sites for bar must
// fail. Call counters live in the probe objects, never here: probes of
// different bars run in different goroutines.
func (f *faults) hit(sites []int, bar, k int) (int, bool) {
	for _, p := range f.plan {
		for _, site := range sites {
			if p.Site == site && p.Bar == bar && p.K == k {
				simrt.Log(simrt.Entry{Kind: EvFault, ID: bar, A: int64(site), B: int64(p.K), S: FaultNames[site]})
				return site, true
			}
		}
	}
	return 0, false
}

// errOf is the error value of the plan's fault at one of the sites (the plan has one fault per site).
func (f *faults) errOf(sites ...int) error {
	for _, p := range f.plan {
		for _, site := range sites {
			if p.Site == site {
				return FaultErr(p.Err)
			}
		}
	}
	return ErrInjected
}

// FaultErr maps Fault.Err to the error a failing call returns: the harness's own error, or one of
// the values real outputs produce when their reader has gone away.
func FaultErr(kind int) error {
	switch kind {
	case 1:
		return io.ErrClosedPipe
	case 2:
		return os.ErrClosed
	case 3:
		return syscall.EPIPE
	case 4:
		return &os.PathError{Op: "write", Path: "/dev/stdout", Err: syscall.EPIPE}
	case 5:
		return io.EOF
	case 6:
		return errReset
	case 7:
		return io.ErrShortWrite
	}
	return ErrInjected
}

var errReset = errors.New("write tcp 10.0.0.1:22: connection reset by peer")

// NFaultErrs is the number of error values FaultErr knows.
const NFaultErrs = 8

// ---------------------------------------------------------------------------
// fillers and extenders

type probeFiller struct {
	bar   int
	base  mpb.BarFiller
	f     *faults
	calls int
}

func (pf *probeFiller) Fill(w io.Writer, st decor.Statistics) error {
	simrt.Log(simrt.Entry{Kind: EvFill, ID: pf.bar, A: int64(st.AvailableWidth)})
	pf.calls++
	if _, bad := pf.f.hit([]int{FaultFill}, pf.bar, pf.calls); bad {
		return pf.f.errOf(FaultFill)
	}
	if pf.base == nil {
		n := st.AvailableWidth
		if n > 6 {
			n = 6
		}
		if n > 0 {
			_, err := io.WriteString(w, strings.Repeat("#", n))
			return err
		}
		return nil
	}
	return pf.base.Fill(w, st)
}

type probeExtender struct {
	noNL      bool
	bar, rows int
	f         *faults
	calls     int
}

// FillMsg is the message a bar's filler is replaced with on complete (kind 0) or on abort (kind 1).
func FillMsg(bar, kind int) string { return fmt.Sprintf("F%c%d!", "CA"[kind], bar) }

// ExtRow is the j-th extender row of a bar.
func ExtRow(bar, j int) string { return fmt.Sprintf("X%d.%d", bar, j) }

func (pe *probeExtender) Fill(w io.Writer, st decor.Statistics) error {
	simrt.Log(simrt.Entry{Kind: EvExt, ID: pe.bar})
	pe.calls++
	if _, bad := pe.f.hit([]int{FaultExt}, pe.bar, pe.calls); bad {
		return pe.f.errOf(FaultExt)
	}
	for j := 0; j < pe.rows; j++ {
		if _, err := io.WriteString(w, ExtRow(pe.bar, j)+"\n"); err != nil {
			return err
		}
	}
	if pe.noNL {
		// not newline-terminated: not a row
		if _, err := io.WriteString(w, "Xtail"); err != nil {
			return err
		}
	}
	return nil
}

// ---------------------------------------------------------------------------
// output recorder (optionally a simulated terminal)

type recorder struct {
	f       *faults
	spec    *ContainerSpec
	writes  int
	queries int
	w, h    int
}

func (r *recorder) Write(p []byte) (int, error) {
	r.writes++
	cp := append([]byte(nil), p...)
	if site, bad := r.f.hit([]int{FaultOutWrite, FaultOutShort}, 0, r.writes); bad {
		if site == FaultOutShort {
			n := len(p) / 2
			simrt.Log(simrt.Entry{Kind: EvWrite, A: int64(r.writes), B: int64(n), S: "short", V: cp})
			return n, nil
		}
		simrt.Log(simrt.Entry{Kind: EvWrite, A: int64(r.writes), B: 0, S: "error", V: cp})
		return 0, r.f.errOf(FaultOutWrite)
	}
	simrt.Log(simrt.Entry{Kind: EvWrite, A: int64(r.writes), B: int64(len(p)), V: cp})
	return len(p), nil
}

type termRecorder struct{ *recorder }

// SimTermSize implements cwriter.SimTerminal (injected by the build step).
func (r termRecorder) SimTermSize() (int, int, error) {
	r.queries++
	for _, rs := range r.spec.Resizes {
		if rs.AtQuery == r.queries {
			r.w, r.h = rs.W, rs.H
		}
	}
	if _, bad := r.f.hit([]int{FaultTermSize}, 0, r.queries); bad {
		simrt.Log(simrt.Entry{Kind: EvTermSize, A: -1, B: -1, S: "error"})
		return -1, -1, ErrInjected
	}
	simrt.Log(simrt.Entry{Kind: EvTermSize, A: int64(r.w), B: int64(r.h)})
	return r.w, r.h, nil
}

type debugRecorder struct{}

func (debugRecorder) Write(p []byte) (int, error) {
	simrt.Log(simrt.Entry{Kind: EvDebug, S: string(p)})
	return len(p), nil
}
