package h

import (
	"context"
	"sync"
	"time"

	simrt "verif/sim/simrt"

	"github.com/vbauerster/mpb/v8"
	"github.com/vbauerster/mpb/v8/decor"
)

// env is the state of one execution of a scenario's program.
type env struct {
	sc          *Scenario
	p           *mpb.Progress
	bars        []*mpb.Bar
	cancel      context.CancelFunc
	manualRC    chan interface{}
	refreshMu     sync.Mutex
	refreshClosed bool
	delayCh     chan struct{}
	notifier    chan interface{}
	stopCh      chan struct{}
	uwg         *sync.WaitGroup
	cwg         sync.WaitGroup
	cdone       []chan struct{}
	f           *faults
	delayClosed bool
	initial     map[int]bool
	joined      bool
}

// Run executes the scenario as the main simulated goroutine.
func Run(sc *Scenario) {
	n := sc.Serial
	if n < 1 {
		n = 1
	}
	for i := 0; i < n; i++ {
		simrt.Log(simrt.Entry{Kind: EvPhase, A: int64(i), S: "begin"})
		runOnce(sc)
		simrt.Log(simrt.Entry{Kind: EvPhase, A: int64(i), S: "end"})
	}
	simrt.Log(simrt.Entry{Kind: EvEnd})
}

func runOnce(sc *Scenario) {
	e := &env{sc: sc, bars: make([]*mpb.Bar, len(sc.Bars)), f: newFaults(sc.Faults), stopCh: make(chan struct{})}
	ctx, cancel := context.WithCancel(context.Background())
	e.cancel = cancel
	initSharedStyles(sc)
	initShutBars(sc)
	c := &sc.Cont
	rec := &recorder{f: e.f, spec: c, w: c.TermW, h: c.TermH}
	var opts []mpb.ContainerOption
	if c.Terminal {
		opts = append(opts, mpb.WithOutput(termRecorder{rec}))
	} else {
		opts = append(opts, mpb.WithOutput(rec))
	}
	opts = append(opts, mpb.WithDebugOutput(debugRecorder{}))
	switch c.Refresh {
	case RefAuto:
		opts = append(opts, mpb.WithAutoRefresh())
		if c.RateNS > 0 {
			opts = append(opts, mpb.WithRefreshRate(time.Duration(c.RateNS)))
		}
	case RefManual:
		e.manualRC = make(chan interface{})
		opts = append(opts, mpb.WithManualRefresh(e.manualRC))
	}
	if c.Width > 0 {
		opts = append(opts, mpb.WithWidth(c.Width))
	}
	if c.QueueLen >= 0 {
		opts = append(opts, mpb.WithQueueLen(c.QueueLen))
	}
	if c.Pop {
		opts = append(opts, mpb.PopCompletedMode())
	}
	if c.Delay {
		e.delayCh = make(chan struct{})
		opts = append(opts, mpb.WithRenderDelay(e.delayCh))
	}
	switch c.Notifier {
	case 1:
		e.notifier = make(chan interface{})
	case 2:
		e.notifier = make(chan interface{}, 1)
	}
	if e.notifier != nil {
		opts = append(opts, mpb.WithShutdownNotifier(e.notifier))
	}
	if c.UserWG {
		e.uwg = new(sync.WaitGroup)
		e.uwg.Add(len(sc.Clients))
		opts = append(opts, mpb.WithWaitGroup(e.uwg))
	}
	e.p = mpb.NewWithContext(ctx, opts...)

	if sc.InjectKind != 0 {
		at, kind := sc.InjectAt, sc.InjectKind
		go func() {
			simrt.WaitStep("canceller", at)
			simrt.Log(simrt.Entry{Kind: EvFault, A: int64(kind), S: "inject"})
			if kind == 1 {
				e.cancel()
			} else {
				e.p.Shutdown()
			}
		}()
	}

	e.initial = map[int]bool{}
	for k, i := range sc.Initial {
		e.initial[i] = true
		e.do(-1, -1-k, Op{K: OpAdd, Bar: i})
	}
	e.cwg.Add(len(sc.Clients))
	e.cdone = make([]chan struct{}, len(sc.Clients))
	for ci := range sc.Clients {
		e.cdone[ci] = make(chan struct{})
	}
	for ci := range sc.Clients {
		ci := ci
		go func() {
			for k, op := range sc.Clients[ci] {
				e.do(ci, k, op)
			}
			if e.uwg != nil {
				e.uwg.Done()
			}
			close(e.cdone[ci])
			e.cwg.Done()
		}()
	}
	for k, op := range sc.Main {
		e.do(-1, k, op)
	}
	if !sc.NoWait {
		simrt.Log(simrt.Entry{Kind: EvWaitIn})
		e.p.Wait()
		simrt.Log(simrt.Entry{Kind: EvWaitOut})
	}
	close(e.stopCh)
	for k, op := range sc.Post {
		e.do(-2, k, op)
	}
	e.cwg.Wait()
	e.joined = true
	if e.notifier != nil && !c.NoReadNotifier {
		e.do(-2, 1000, Op{K: OpReadNotifier})
	}
	for i, b := range e.bars {
		if b == nil {
			continue
		}
		fr := FinalRec{Bar: i}
		fr.Current = b.Current()
		fr.Completed = b.Completed()
		fr.Aborted = b.Aborted()
		fr.Running = b.IsRunning()
		fr.ID = b.ID()
		simrt.Log(simrt.Entry{Kind: EvFinal, ID: i, V: fr})
	}
	// a second look at the notifier: nothing more may arrive
	if e.notifier != nil && !c.NoReadNotifier {
		select {
		case v := <-e.notifier:
			simrt.Log(simrt.Entry{Kind: EvNotified, A: 2, V: e.barIdxs(v)})
		default:
		}
	}
}

func (e *env) barIdxs(v interface{}) []int {
	bs, ok := v.([]*mpb.Bar)
	if !ok {
		return []int{-99}
	}
	out := make([]int, 0, len(bs))
	for _, b := range bs {
		k := -1
		for i, x := range e.bars {
			if x == b {
				k = i
			}
		}
		out = append(out, k)
	}
	return out
}

func (e *env) barOptions(i int) (mpb.BarFiller, []mpb.BarOption) {
	bs := &e.sc.Bars[i]
	var filler mpb.BarFiller
	switch bs.Filler {
	case FillBar:
		filler = mpb.BarStyle().Build()
	case FillSpinner:
		filler = mpb.SpinnerStyle().Build()
	case FillProbe:
		filler = &probeFiller{bar: i, f: e.f}
	}
	var opts []mpb.BarOption
	// a pass-through middleware: it runs on the container's goroutine while the Add request is served
	opts = append(opts, mpb.BarFillerMiddleware(func(base mpb.BarFiller) mpb.BarFiller {
		simrt.Log(simrt.Entry{Kind: EvServed, ID: i})
		return base
	}))
	if bs.Filler != FillProbe {
		opts = append(opts, mpb.BarFillerMiddleware(func(base mpb.BarFiller) mpb.BarFiller {
			return &probeFiller{bar: i, base: base, f: e.f}
		}))
	}
	if bs.FillOnComplete {
		opts = append(opts, mpb.BarFillerOnComplete(FillMsg(i, 0)))
	}
	if bs.FillOnAbort {
		opts = append(opts, mpb.BarFillerOnAbort(FillMsg(i, 1)))
	}
	var pre, app []decor.Decorator
	if !bs.NoSpy {
		pre = append(pre, newSpy(i, e.sc.Cont.Anon))
	}
	for k, ds := range bs.Pre {
		pre = append(pre, buildDecorator(ds, i, 0, k))
	}
	for k, ds := range bs.App {
		app = append(app, buildDecorator(ds, i, 1, k))
	}
	opts = append(opts, mpb.PrependDecorators(pre...), mpb.AppendDecorators(app...))
	if bs.HasPrio {
		opts = append(opts, mpb.BarPriority(bs.Prio))
	}
	if bs.HasID {
		opts = append(opts, mpb.BarID(bs.ID))
	}
	if bs.RmOnComp {
		opts = append(opts, mpb.BarRemoveOnComplete())
	}
	if bs.NoPop {
		opts = append(opts, mpb.BarNoPop())
	}
	if bs.Trim {
		opts = append(opts, mpb.BarFillerTrim())
	}
	if bs.Width > 0 {
		opts = append(opts, mpb.BarWidth(bs.Width))
	}
	if bs.ExtRows > 0 {
		opts = append(opts, mpb.BarExtender(&probeExtender{bar: i, rows: bs.ExtRows, f: e.f, noNL: bs.ExtNoNL}, bs.ExtRev))
	}
	if bs.QueueAfter >= 0 && e.bars[bs.QueueAfter] != nil {
		opts = append(opts, mpb.BarQueueAfter(e.bars[bs.QueueAfter]))
	}
	if bs.QueueAfter == -2 {
		opts = append(opts, mpb.BarQueueAfter(nil)) // "no predecessor after all"
	}
	if bs.OptVariant != 0 {
		opts = optionalVariants(bs, opts)
	}
	return filler, opts
}

// optionalVariants passes every option through one of the conditional wrappers (condition true)
// and mixes in nil options and wrapped options whose condition is false (they must have no effect).
func optionalVariants(bs *BarSpec, opts []mpb.BarOption) []mpb.BarOption {
	yes := func() bool { return true }
	no := func() bool { return false }
	v := bs.OptVariant
	var out []mpb.BarOption
	for j, o := range opts {
		o := o
		switch (v + j) % 5 {
		case 0:
			out = append(out, mpb.BarOptional(o, true))
		case 1:
			out = append(out, mpb.BarOptOn(o, yes))
		case 2:
			out = append(out, mpb.BarFuncOptional(func() mpb.BarOption { return o }, true))
		case 3:
			out = append(out, mpb.BarFuncOptOn(func() mpb.BarOption { return o }, yes))
		default:
			out = append(out, o)
		}
		switch (v/5 + j) % 6 {
		case 0:
			out = append(out, nil)
		case 1:
			if !bs.RmOnComp {
				out = append(out, mpb.BarOptional(mpb.BarRemoveOnComplete(), false))
			}
		case 2:
			if !bs.NoPop {
				out = append(out, mpb.BarOptOn(mpb.BarNoPop(), no))
			}
		case 3:
			if !bs.HasPrio {
				out = append(out, mpb.BarFuncOptional(func() mpb.BarOption { return mpb.BarPriority(-999) }, false))
			}
		case 4:
			if bs.Width == 0 {
				out = append(out, mpb.BarFuncOptOn(func() mpb.BarOption { return mpb.BarWidth(3) }, no))
			}
		}
	}
	return out
}

func b2i(b bool) int64 {
	if b {
		return 1
	}
	return 0
}

// do executes one operation on behalf of a client (-1: main before Wait, -2: main after Wait).
func (e *env) do(client, idx int, op Op) {
	var b *mpb.Bar
	needBar := false
	switch op.K {
	case OpIncr, OpIncrBy, OpIncrement, OpEwmaIncr, OpEwmaIncrBy, OpEwmaIncrement, OpSetCurrent, OpEwmaSetCurrent, OpSetTotal,
		OpEnableTrigger, OpSetRefill, OpAbort, OpSetPriority, OpUpdatePriority, OpCurrent, OpCompleted, OpAborted, OpPair, OpPairAC,
		OpIsRunning, OpID, OpBarWait, OpProxy, OpTraverse, OpAvgAdjust:
		needBar = true
	}
	if needBar {
		// main only touches bars it created itself until it has joined the clients
		// (a handle stored by a client is not published to main before that)
		if op.Bar >= 0 && op.Bar < len(e.bars) && (client >= 0 || e.joined || e.initial[op.Bar]) {
			b = e.bars[op.Bar]
		}
		if b == nil {
			simrt.Log(simrt.Entry{Kind: EvSkip, ID: client, A: int64(idx)})
			return
		}
	}
	simrt.Log(simrt.Entry{Kind: EvInvoke, ID: client, A: int64(idx), V: op})
	var r int64
	var rs string
	switch op.K {
	case OpAdd:
		if e.bars[op.Bar] != nil {
			rs = "dup"
			break
		}
		filler, opts := e.barOptions(op.Bar)
		bar, err := e.p.Add(e.sc.Bars[op.Bar].Total, filler, opts...)
		if err != nil {
			rs = err.Error()
			if err == mpb.ErrDone {
				rs = "ErrDone"
			}
			if bar != nil {
				rs += "+nonnil"
			}
		} else if bar == nil {
			rs = "nil,nil"
		} else {
			e.bars[op.Bar] = bar
			if shutBars.on {
				shutBars.mu.Lock()
				shutBars.bars[op.Bar] = bar
				shutBars.mu.Unlock()
			}
		}
	case OpIncr:
		b.IncrInt64(op.N)
	case OpIncrBy:
		b.IncrBy(int(op.N))
	case OpIncrement:
		b.Increment()
	case OpEwmaIncr:
		b.EwmaIncrInt64(op.N, time.Duration(op.D))
	case OpEwmaIncrBy:
		b.EwmaIncrBy(int(op.N), time.Duration(op.D))
	case OpEwmaIncrement:
		b.EwmaIncrement(time.Duration(op.D))
	case OpSetCurrent:
		b.SetCurrent(op.N)
	case OpEwmaSetCurrent:
		b.EwmaSetCurrent(op.N, time.Duration(op.D))
	case OpSetTotal:
		b.SetTotal(op.N, op.Flag)
	case OpEnableTrigger:
		b.EnableTriggerComplete()
	case OpSetRefill:
		b.SetRefill(op.N)
	case OpAbort:
		b.Abort(op.Flag)
	case OpSetPriority:
		b.SetPriority(int(op.N))
	case OpUpdatePriority:
		e.p.UpdateBarPriority(b, int(op.N), op.Flag)
	case OpWrite:
		// an io.Writer must not retain the slice: the caller reuses its buffer right after the call
		buf := []byte(op.S)
		n, err := e.p.Write(buf)
		for i := range buf {
			if buf[i] != '\n' {
				buf[i] = '#'
			}
		}
		r = int64(n)
		if err != nil {
			rs = err.Error()
			if err == mpb.ErrDone {
				rs = "ErrDone"
			}
		}
	case OpCurrent:
		r = b.Current()
	case OpCompleted:
		r = b2i(b.Completed())
	case OpAborted:
		r = b2i(b.Aborted())
	case OpPair:
		c := b.Completed()
		a := b.Aborted()
		r = b2i(c) | b2i(a)<<1
	case OpPairAC:
		a := b.Aborted()
		c := b.Completed()
		r = b2i(c) | b2i(a)<<1
	case OpIsRunning:
		r = b2i(b.IsRunning())
	case OpID:
		r = int64(b.ID())
	case OpBarWait:
		b.Wait()
	case OpTraverse:
		// the callback runs asynchronously in the bar's goroutine: it must not share state with the caller
		bi := op.Bar
		b.TraverseDecorators(func(decor.Decorator) { simrt.Log(simrt.Entry{Kind: "trav", ID: bi}) })
	case OpAvgAdjust:
		b.DecoratorAverageAdjust(simrt.TimeOf(op.N))
	case OpCloseRefresh:
		if e.manualRC != nil {
			e.refreshMu.Lock()
			if !e.refreshClosed {
				e.refreshClosed = true
				close(e.manualRC)
				r = 1
			}
			e.refreshMu.Unlock()
		}
	case OpRefresh:
		if e.manualRC != nil {
			// (senders and the closer of the channel take turns: a send on a closed channel would be
			// the program's own fault)
			e.refreshMu.Lock()
			if e.refreshClosed {
				e.refreshMu.Unlock()
				break
			}
			defer e.refreshMu.Unlock()
			var v interface{} = time.Now()
			if op.Flag {
				v = struct{}{}
			}
			// a user would not block for ever on the refresh channel of a
			// container that may have shut down: give up after a (simulated) while
			t := time.NewTimer(50 * time.Millisecond)
			select {
			case e.manualRC <- v:
				r = 1
			case <-e.stopCh:
			case <-t.C:
			}
			t.Stop()
		}
	case OpCloseDelay:
		if e.delayCh != nil && !e.delayClosed {
			e.delayClosed = true
			close(e.delayCh)
			r = 1
		}
	case OpWait:
		e.p.Wait() // a second waiter (main has its own Wait)
	case OpCancel:
		e.cancel()
	case OpShutdown:
		e.p.Shutdown()
	case OpSleep:
		time.Sleep(time.Duration(op.D))
	case OpReadNotifier:
		if e.notifier != nil {
			v := <-e.notifier
			simrt.Log(simrt.Entry{Kind: EvNotified, A: 1, V: e.barIdxs(v)})
		}
	case OpJoin:
		e.cwg.Wait()
		e.joined = true
	case OpJoinFirst:
		for i := 0; i < int(op.N) && i < len(e.cdone); i++ {
			<-e.cdone[i]
		}
	case OpFair:
		simrt.EnterFair()
	case OpProxy:
		r, rs = e.proxy(b, op)
	default:
		panic("harness: unknown op")
	}
	simrt.Log(simrt.Entry{Kind: EvReturn, ID: client, A: int64(idx), B: r, S: rs})
}
