package h

import (
	"io"
	"time"

	simrt "verif/sim/simrt"

	"github.com/vbauerster/mpb/v8"
)

// StreamBytes is the content of the seeded source stream of a StreamSpec.
func StreamBytes(sp *StreamSpec) []byte {
	out := make([]byte, sp.Len)
	x := sp.Seed | 1
	for i := range out {
		x ^= x << 13
		x ^= x >> 7
		x ^= x << 17
		out[i] = byte('a' + x%26)
	}
	return out
}

func errStr(err error) string {
	if err == nil {
		return ""
	}
	if err == io.EOF {
		return "EOF"
	}
	return err.Error()
}

func logStream(side, call string, n int64, err error, data []byte, dur int64, cur int64) {
	simrt.Log(simrt.Entry{Kind: EvStream, A: cur, V: StreamRec{Side: side, Call: call, N: n, Err: errStr(err), Data: append([]byte(nil), data...), Dur: dur}})
}

// stub is the wrapped reader / writer: seeded chunking, latency and failure.
type stub struct {
	sp    *StreamSpec
	data  []byte // reader: remaining source; writer: accepted bytes
	calls int
}

func (s *stub) plan() (chunk int, lat int64, fail bool) {
	s.calls++
	chunk = -1
	if len(s.sp.Chunks) > 0 {
		chunk = s.sp.Chunks[(s.calls-1)%len(s.sp.Chunks)]
	}
	if len(s.sp.Latency) > 0 {
		lat = s.sp.Latency[(s.calls-1)%len(s.sp.Latency)]
	}
	fail = s.sp.FailAt > 0 && s.calls == s.sp.FailAt
	return
}

func (s *stub) read(p []byte) (int, error) {
	t0 := simrt.PeekNS()
	chunk, lat, fail := s.plan()
	if lat > 0 {
		time.Sleep(time.Duration(lat))
	}
	n := len(p)
	if chunk >= 0 && chunk < n {
		n = chunk
	}
	if n > len(s.data) {
		n = len(s.data)
	}
	var err error
	if fail {
		err = ErrInjected
		if !s.sp.FailWithN {
			n = 0
		}
	} else if len(s.data) == 0 {
		err = io.EOF
	}
	copy(p, s.data[:n])
	s.data = s.data[n:]
	logStream("stub", "Read", int64(n), err, p[:n], simrt.PeekNS()-t0, 0)
	return n, err
}

func (s *stub) write(p []byte) (int, error) {
	t0 := simrt.PeekNS()
	chunk, lat, fail := s.plan()
	if lat > 0 {
		time.Sleep(time.Duration(lat))
	}
	n := len(p)
	if chunk >= 0 && chunk < n {
		n = chunk
	}
	var err error
	if fail {
		err = ErrInjected
		if !s.sp.FailWithN {
			n = 0
		}
	} else if n < len(p) {
		err = io.ErrShortWrite
	}
	s.data = append(s.data, p[:n]...)
	logStream("stub", "Write", int64(n), err, p[:n], simrt.PeekNS()-t0, 0)
	return n, err
}

func (s *stub) close() error {
	var err error
	if s.sp.CloseErr {
		err = ErrInjected
	}
	logStream("stub", "Close", 0, err, nil, 0, 0)
	return err
}

// writeTo drains the source into w with the stub's own chunking (one planned call).
func (s *stub) writeTo(w io.Writer) (int64, error) {
	t0 := simrt.PeekNS()
	_, lat, fail := s.plan()
	if lat > 0 {
		time.Sleep(time.Duration(lat))
	}
	n := len(s.data)
	var err error
	if fail {
		err = ErrInjected
		n = n / 2
	}
	m, werr := w.Write(s.data[:n])
	if werr != nil && err == nil {
		err = werr
	}
	logStream("stub", "WriteTo", int64(m), err, s.data[:m], simrt.PeekNS()-t0, 0)
	s.data = s.data[m:]
	return int64(m), err
}

// readFrom fills the sink from r (one planned call).
func (s *stub) readFrom(r io.Reader) (int64, error) {
	t0 := simrt.PeekNS()
	_, lat, fail := s.plan()
	if lat > 0 {
		time.Sleep(time.Duration(lat))
	}
	var total int64
	var err error
	buf := make([]byte, 7)
	for {
		n, rerr := r.Read(buf)
		s.data = append(s.data, buf[:n]...)
		total += int64(n)
		if rerr != nil {
			if rerr != io.EOF {
				err = rerr
			}
			break
		}
		if fail && total > 0 {
			err = ErrInjected
			break
		}
	}
	if fail && err == nil {
		err = ErrInjected
	}
	logStream("stub", "ReadFrom", total, err, nil, simrt.PeekNS()-t0, 0)
	return total, err
}

// the eight shapes
type rdPlain struct{ s *stub }

func (x rdPlain) Read(p []byte) (int, error) { return x.s.read(p) }

type rdCloser struct{ s *stub }

func (x rdCloser) Read(p []byte) (int, error) { return x.s.read(p) }
func (x rdCloser) Close() error               { return x.s.close() }

type rdFast struct{ s *stub }

func (x rdFast) Read(p []byte) (int, error)         { return x.s.read(p) }
func (x rdFast) WriteTo(w io.Writer) (int64, error) { return x.s.writeTo(w) }

type rdCloserFast struct{ s *stub }

func (x rdCloserFast) Read(p []byte) (int, error)         { return x.s.read(p) }
func (x rdCloserFast) Close() error                       { return x.s.close() }
func (x rdCloserFast) WriteTo(w io.Writer) (int64, error) { return x.s.writeTo(w) }

type wrPlain struct{ s *stub }

func (x wrPlain) Write(p []byte) (int, error) { return x.s.write(p) }

type wrCloser struct{ s *stub }

func (x wrCloser) Write(p []byte) (int, error) { return x.s.write(p) }
func (x wrCloser) Close() error                { return x.s.close() }

type wrFast struct{ s *stub }

func (x wrFast) Write(p []byte) (int, error)         { return x.s.write(p) }
func (x wrFast) ReadFrom(r io.Reader) (int64, error) { return x.s.readFrom(r) }

type wrCloserFast struct{ s *stub }

func (x wrCloserFast) Write(p []byte) (int, error)         { return x.s.write(p) }
func (x wrCloserFast) Close() error                        { return x.s.close() }
func (x wrCloserFast) ReadFrom(r io.Reader) (int64, error) { return x.s.readFrom(r) }

// plain endpoints on the client's side (never offer a fast path)
type sinkWriter struct{ data []byte }

func (s *sinkWriter) Write(p []byte) (int, error) { s.data = append(s.data, p...); return len(p), nil }

type srcReader struct {
	data []byte
	bufs []int
	k    int
}

func (s *srcReader) Read(p []byte) (int, error) {
	if len(s.data) == 0 {
		return 0, io.EOF
	}
	n := len(p)
	if len(s.bufs) > 0 {
		if c := s.bufs[s.k%len(s.bufs)]; c > 0 && c < n {
			n = c
		}
		s.k++
	}
	if n > len(s.data) {
		n = len(s.data)
	}
	copy(p, s.data[:n])
	s.data = s.data[n:]
	return n, nil
}

func (e *env) proxy(b *mpb.Bar, op Op) (int64, string) {
	sp := op.Stream
	if sp == nil {
		return 0, "nospec"
	}
	st := &stub{sp: sp}
	if !sp.Writer {
		st.data = StreamBytes(sp)
		var r io.Reader
		switch {
		case sp.HasClose && sp.HasFast:
			r = rdCloserFast{st}
		case sp.HasClose:
			r = rdCloser{st}
		case sp.HasFast:
			r = rdFast{st}
		default:
			r = rdPlain{st}
		}
		pr := b.ProxyReader(r)
		if pr == nil {
			logStream("proxy", "nil", 0, nil, nil, 0, b.Current())
			return 0, "nil"
		}
		_, isFast := pr.(io.WriterTo)
		logStream("proxy", "shape", b2i(isFast), nil, nil, 0, b.Current())
		sink := &sinkWriter{}
		if sp.UseCopy {
			n, err := io.Copy(sink, pr)
			logStream("proxy", "Copy", n, err, sink.data, 0, b.Current())
		} else {
			for k := 0; k < 10000; k++ {
				sz := 8
				if len(sp.BufSizes) > 0 {
					sz = sp.BufSizes[k%len(sp.BufSizes)]
				}
				buf := make([]byte, sz)
				n, err := pr.Read(buf)
				logStream("proxy", "Read", int64(n), err, buf[:n], 0, b.Current())
				if err != nil {
					break
				}
			}
		}
		if sp.DoClose {
			err := pr.Close()
			logStream("proxy", "Close", 0, err, nil, 0, b.Current())
		}
		return 0, ""
	}
	var w io.Writer
	switch {
	case sp.HasClose && sp.HasFast:
		w = wrCloserFast{st}
	case sp.HasClose:
		w = wrCloser{st}
	case sp.HasFast:
		w = wrFast{st}
	default:
		w = wrPlain{st}
	}
	pw := b.ProxyWriter(w)
	if pw == nil {
		logStream("proxy", "nil", 0, nil, nil, 0, b.Current())
		return 0, "nil"
	}
	_, isFast := pw.(io.ReaderFrom)
	logStream("proxy", "shape", b2i(isFast), nil, nil, 0, b.Current())
	src := StreamBytes(sp)
	if sp.UseCopy {
		n, err := io.Copy(pw, &srcReader{data: src, bufs: sp.BufSizes})
		logStream("proxy", "Copy", n, err, nil, 0, b.Current())
	} else {
		for k := 0; len(src) > 0 && k < 10000; k++ {
			sz := 8
			if len(sp.BufSizes) > 0 {
				sz = sp.BufSizes[k%len(sp.BufSizes)]
			}
			if sz > len(src) {
				sz = len(src)
			}
			n, err := pw.Write(src[:sz])
			logStream("proxy", "Write", int64(n), err, src[:sz], 0, b.Current())
			if n < 0 || n > sz {
				break
			}
			src = src[n:]
			if err != nil {
				break
			}
		}
	}
	if sp.DoClose {
		err := pw.Close()
		logStream("proxy", "Close", 0, err, nil, 0, b.Current())
	}
	return 0, ""
}
