package o

import (
	"fmt"
	"strings"

	"verif/sim/simrt"

	"github.com/vbauerster/mpb/v8/zzverif/h"
)

// PropDef binds a property to its generator, oracle and non-triviality rule.
type PropDef struct {
	ID         string
	Gen        func(r *Rand, tier string, i int) *h.Scenario
	Judge      func(hi *Hist) []*Violation
	NonTrivial func(hi *Hist) bool
	// Expand derives the enumerated variants of a base run (fault enumeration):
	// every injection point / fault site of the base execution.
	Expand func(base *h.Scenario, hi *Hist, r *Rand, tier string) []*h.Scenario
	// Probes names reach counters that must not stay at zero over a batch.
	Probes []string
}

// Props is the registry of decided properties.
var Props = map[string]*PropDef{}

func register(p *PropDef) { Props[p.ID] = p }

func init() {
	register(&PropDef{ID: "C01", Gen: genC01, Judge: judgeC01, NonTrivial: func(hi *Hist) bool {
		return len(hi.Added) >= 2 && len(hi.Writes) >= 1 && hi.WaitIn >= 0
	}, Probes: []string{"sync_decorators", "select_multi_ready", "tick_during_work"}})
	register(&PropDef{ID: "C02", Gen: genC02, Judge: judgeC02, NonTrivial: func(hi *Hist) bool {
		return len(hi.Ops) >= 4
	}, Probes: []string{"late_call", "racing_done"}})
	register(&PropDef{ID: "C16", Gen: genC16, Judge: judgeC16, NonTrivial: func(hi *Hist) bool {
		return len(hi.Added) >= 1 && hi.Res.MainExitAt > 0
	}, Probes: []string{"early_refresh", "serial_reuse"}})
}

// ---------------------------------------------------------------------------
// C01

func genC01(r *Rand, tier string, i int) *h.Scenario {
	p := DefaultProfile("C01")
	p.MaxBars = 6
	p.PQueueAfter = 0.12 // successors created before their predecessor finishes (late ones are finding F4b, owned by C17)
	p.PTightTerm = 0.35  // more rows than lines: bars that have no line still finish and are waited for
	if r.Bool(0.04) {
		p.MinBars, p.MaxBars = 0, 0 // "any number of bars": none at all
	}
	if tier == "thorough" {
		p.MaxBars = 8
		p.MaxClients = 4
		p.MaxOps = 20
	}
	sc := GenBase(r, &p)
	// "or the container is cancelled": by the client ...
	if r.Bool(0.12) {
		op := h.Op{K: []int{h.OpCancel, h.OpShutdown}[r.Intn(2)]}
		who := r.Intn(len(sc.Clients) + 1)
		if who == len(sc.Clients) {
			pos := r.Intn(len(sc.Main) + 1)
			sc.Main = append(sc.Main[:pos:pos], append([]h.Op{op}, sc.Main[pos:]...)...)
		} else {
			ops := sc.Clients[who]
			pos := r.Intn(len(ops) + 1)
			sc.Clients[who] = append(ops[:pos:pos], append([]h.Op{op}, ops[pos:]...)...)
		}
	}
	addWatchers(r, sc)
	// ... or by a render error; Wait must return all the same
	if r.Bool(0.1) && len(sc.Bars) > 0 {
		site := []int{h.FaultFill, h.FaultExt, h.FaultOutWrite, h.FaultOutShort}[r.Intn(4)]
		sc.Faults = []h.Fault{{Site: site, Bar: r.Intn(len(sc.Bars)), K: r.Range(1, 5), Err: []int{0, 0, 1, 2, 3, 4, 5, 6}[r.Intn(8)]}}
		if site == h.FaultOutWrite || site == h.FaultOutShort {
			sc.Faults[0].Bar = 0
		}
	}
	return sc
}

func stuckOps(hi *Hist) string {
	var sb strings.Builder
	for _, op := range hi.Ops {
		if op.Ret < 0 {
			fmt.Fprintf(&sb, "  client %d op %d %s(bar %d) never returned\n", op.Client, op.Idx, h.OpNames[op.Op.K], op.Op.Bar)
		}
	}
	return sb.String()
}

func judgeC01(hi *Hist) []*Violation {
	res := hi.Res
	switch res.Outcome {
	case simrt.Deadlock:
		return []*Violation{viol("C01", "deadlock", "no goroutine can make progress after %d steps (wait entered: %v, returned: %v)\n%s%s",
			res.Steps, hi.WaitIn >= 0, hi.WaitOut >= 0, stuckOps(hi), describeLive(res))}
	case simrt.Hang:
		return []*Violation{viol("C01", "hang", "main did not finish within the fair-suffix budget (%d fair steps; wait entered: %v, returned: %v)\n%s%s",
			res.Steps-res.FairAt, hi.WaitIn >= 0, hi.WaitOut >= 0, stuckOps(hi), describeLive(res))}
	case simrt.Panic:
		return nil // C02's business
	}
	var out []*Violation
	for _, op := range hi.Ops {
		if op.Ret < 0 {
			out = append(out, viol("C01", "op-stuck", "client %d op %d %s(bar %d) never returned although the run ended", op.Client, op.Idx, h.OpNames[op.Op.K], op.Op.Bar))
			break
		}
		if op.Op.K == h.OpBarWait && hi.WaitOut >= 0 && op.Inv < hi.WaitOut && op.Ret > hi.WaitOut && op.Client >= 0 {
			// Bar.Wait issued before Progress.Wait returned must return no later than the bar's container:
			// allowed to be observed later by a slow client goroutine, so only a never-returning call is flagged above
			_ = op
		}
	}
	return out
}

// ---------------------------------------------------------------------------
// C02

func genC02(r *Rand, tier string, i int) *h.Scenario {
	p := DefaultProfile("C02")
	p.PLate = 0.8
	p.PPostTerminalOps = 0.4
	p.PQueueAfter = 0.1 // successors created before their predecessor finishes (wave 15: s238)
	p.PCancelEnd = 0.5
	p.PTightTerm = 0.3
	sc := GenBase(r, &p)
	// place the container-done event at a random position of a random client (or main)
	if r.Bool(0.5) {
		op := h.Op{K: []int{h.OpCancel, h.OpShutdown}[r.Intn(2)]}
		who := r.Intn(len(sc.Clients) + 1)
		if who == len(sc.Clients) {
			pos := r.Intn(len(sc.Main) + 1)
			sc.Main = append(sc.Main[:pos:pos], append([]h.Op{op}, sc.Main[pos:]...)...)
		} else {
			ops := sc.Clients[who]
			pos := r.Intn(len(ops) + 1)
			sc.Clients[who] = append(ops[:pos:pos], append([]h.Op{op}, ops[pos:]...)...)
		}
	}
	// late operations: every kind
	nw := 1000
	for k, n := 0, r.Range(2, 8); k < n; k++ {
		if len(sc.Bars) == 0 {
			break
		}
		b := r.Intn(len(sc.Bars))
		kinds := []int{h.OpIncr, h.OpIncrBy, h.OpIncrement, h.OpEwmaIncr, h.OpSetCurrent, h.OpEwmaSetCurrent, h.OpSetTotal, h.OpEnableTrigger, h.OpSetRefill,
			h.OpAbort, h.OpSetPriority, h.OpUpdatePriority, h.OpCurrent, h.OpCompleted, h.OpAborted, h.OpPair, h.OpIsRunning, h.OpID, h.OpBarWait, h.OpTraverse, h.OpWrite}
		op := h.Op{K: kinds[r.Intn(len(kinds))], Bar: b, N: int64(r.Range(0, 30)), Flag: r.Bool(0.5), D: 1000}
		if op.K == h.OpWrite {
			nw++
			op.S = UserLine(-2, nw, "late")
		}
		sc.Post = append(sc.Post, op)
	}
	// the container may also be done because a render failed: late calls behave the same
	if r.Bool(0.15) && len(sc.Bars) > 0 {
		site := []int{h.FaultFill, h.FaultExt, h.FaultOutWrite}[r.Intn(3)]
		sc.Faults = []h.Fault{{Site: site, Bar: r.Intn(len(sc.Bars)), K: r.Range(1, 5), Err: []int{0, 0, 1, 2, 3, 4, 5, 6}[r.Intn(8)]}}
		if site == h.FaultOutWrite {
			sc.Faults[0].Bar = 0
		}
	}
	// a late Add (of a bar no client ever created) returns (nil, ErrDone)
	if r.Bool(0.6) {
		sc.Bars = append(sc.Bars, h.BarSpec{QueueAfter: -1, Total: 7, Filler: h.FillProbe})
		sc.Post = append(sc.Post, h.Op{K: h.OpAdd, Bar: len(sc.Bars) - 1})
	}
	if len(sc.Initial) > 0 && r.Bool(0.3) {
		sc.Post = append(sc.Post, h.Op{K: h.OpAvgAdjust, Bar: sc.Initial[r.Intn(len(sc.Initial))], N: 12345})
	}
	// a proxy requested after the container is done is nil
	if len(sc.Initial) > 0 && r.Bool(0.5) {
		sc.Post = append(sc.Post, h.Op{K: h.OpProxy, Bar: sc.Initial[r.Intn(len(sc.Initial))], Stream: &h.StreamSpec{Writer: r.Bool(0.5), Len: 4, BufSizes: []int{4}}})
	}
	return sc
}

func judgeC02(hi *Hist) []*Violation {
	res := hi.Res
	if res.Outcome == simrt.Panic {
		return []*Violation{viol("C02", "panic", "goroutine created at %s panicked: %s\n%s", res.PanicG.Site, res.PanicVal, trimStack(res.PanicStack))}
	}
	var out []*Violation
	if res.Outcome == simrt.Deadlock || res.Outcome == simrt.Hang {
		// a call that never returns although the container is done
		for _, op := range hi.Ops {
			if op.Ret < 0 && hi.WaitOut >= 0 && op.Inv > hi.WaitOut {
				out = append(out, viol("C02", "late-call-blocks", "%s(bar %d) invoked after Wait returned never returned\n%s", h.OpNames[op.Op.K], op.Op.Bar, describeLive(res)))
				return out
			}
		}
		return []*Violation{viol("C02", "hang", "%v: valid calls never returned\n%s%s", res.Outcome, stuckOps(hi), describeLive(res))}
	}
	// Add returns a bar or an error, never neither or both
	for _, op := range hi.Ops {
		if op.Op.K == h.OpAdd && op.Ret >= 0 && (op.RS == "nil,nil" || strings.Contains(op.RS, "nonnil")) {
			return []*Violation{viol("C02", "add-result", "Add returned %s: the caller gets neither a bar nor an error (or both), the first use of the bar panics", op.RS)}
		}
	}
	if hi.WaitOut < 0 {
		return nil
	}
	for _, op := range hi.Ops {
		if op.Inv < hi.WaitOut {
			continue
		}
		switch op.Op.K {
		case h.OpAdd:
			if op.RS != "ErrDone" {
				out = append(out, viol("C02", "late-add", "Add invoked after Wait returned gave %q, want (nil, ErrDone)", op.RS))
			}
		case h.OpWrite:
			if op.RS != "ErrDone" || op.R != 0 {
				out = append(out, viol("C02", "late-write", "Write invoked after Wait returned gave (%d, %q), want (0, ErrDone)", op.R, op.RS))
			}
		case h.OpProxy:
			if op.RS != "nil" {
				out = append(out, viol("C02", "late-proxy", "ProxyReader/ProxyWriter requested after Wait returned is not nil"))
			}
		}
	}
	// late getters return the final values
	for _, op := range hi.Ops {
		if op.Inv < hi.WaitOut || op.Ret < 0 {
			continue
		}
		fin, ok := hi.Finals[op.Op.Bar]
		if !ok {
			continue
		}
		switch op.Op.K {
		case h.OpCurrent:
			if op.R != fin.Current {
				out = append(out, viol("C02", "late-getter", "Current() after Wait = %d, later %d", op.R, fin.Current))
			}
		case h.OpCompleted:
			if (op.R == 1) != fin.Completed {
				out = append(out, viol("C02", "late-getter", "Completed() after Wait = %v, later %v", op.R == 1, fin.Completed))
			}
		case h.OpAborted:
			if (op.R == 1) != fin.Aborted {
				out = append(out, viol("C02", "late-getter", "Aborted() after Wait = %v, later %v", op.R == 1, fin.Aborted))
			}
		case h.OpIsRunning:
			if op.R != 0 {
				out = append(out, viol("C02", "late-getter", "IsRunning() after Wait = true"))
			}
		case h.OpID:
			if int(op.R) != fin.ID {
				out = append(out, viol("C02", "late-getter", "ID() after Wait = %d, later %d", op.R, fin.ID))
			}
		}
	}
	if len(out) > 1 {
		out = out[:1]
	}
	return out
}

func trimStack(s string) string {
	lines := strings.Split(s, "\n")
	var keep []string
	for _, l := range lines {
		if strings.Contains(l, "simrt") || strings.Contains(l, "runtime/") {
			continue
		}
		keep = append(keep, l)
		if len(keep) > 24 {
			break
		}
	}
	return strings.Join(keep, "\n")
}

// ---------------------------------------------------------------------------
// C16

func genC16(r *Rand, tier string, i int) *h.Scenario {
	p := DefaultProfile("C16")
	p.PQueueAfter = 0.1
	p.PEwma = 0.3
	p.PListener = 0.3
	p.PNotifier = 0.4
	p.PNarrow = 0.15 // rows too narrow for their decorators: truncated, and nothing must be left behind either
	sc := GenBase(r, &p)
	if r.Bool(0.3) {
		sc.Serial = r.Range(2, 4)
	}
	if r.Bool(0.25) {
		op := h.Op{K: []int{h.OpCancel, h.OpShutdown}[r.Intn(2)]}
		pos := r.Intn(len(sc.Main) + 1)
		sc.Main = append(sc.Main[:pos:pos], append([]h.Op{op}, sc.Main[pos:]...)...)
	} else if r.Bool(0.3) && len(sc.Bars) > 0 {
		// error path: some render fault ends the container
		site := []int{h.FaultFill, h.FaultFill, h.FaultExt, h.FaultOutWrite, h.FaultTermSize}[r.Intn(5)]
		sc.Faults = []h.Fault{{Site: site, Bar: r.Intn(len(sc.Bars)), K: r.Range(1, 6), Err: []int{0, 0, 1, 2, 3, 4, 5, 6}[r.Intn(8)]}}
		if site != h.FaultFill && site != h.FaultExt {
			sc.Faults[0].Bar = 0
		}
	}
	return sc
}

func judgeC16(hi *Hist) []*Violation {
	res := hi.Res
	if res.Outcome != simrt.OK {
		return nil // C01 / C02 report these
	}
	var leaked []simrt.GInfo
	for _, g := range res.Live {
		if !libSite(g.Site) {
			continue
		}
		leaked = append(leaked, g)
	}
	if len(leaked) == 0 {
		return nil
	}
	kind := "leak"
	if res.Spinning {
		kind = "leak-spinning"
	}
	return []*Violation{viol("C16", kind, "%d library goroutine(s) alive at quiescence after Wait returned and the notifier was read:\n%s", len(leaked), simrt.FormatLive(leaked))}
}
