package o

import (
	"fmt"
	"math"
	"sort"
	"time"

	"verif/sim/simrt"

	"github.com/anishathalye/porcupine"
	"github.com/vbauerster/mpb/v8/zzverif/h"
)

func init() {
	register(&PropDef{ID: "C09", Gen: genC09, Judge: judgeC09, NonTrivial: func(hi *Hist) bool {
		n := 0
		for _, op := range hi.Ops {
			if op.Client == 0 && IsMutator(op.Op.K) {
				n++
			}
		}
		return n >= 3
	}, Probes: []string{"c09_getters_compared", "c09_stats_compared", "c09_completed_by_rule"}})
	register(&PropDef{ID: "C11", Gen: genC11, Judge: judgeC11, NonTrivial: func(hi *Hist) bool {
		return len(hi.Added) >= 1 && len(hi.Finals) >= 1
	}, Probes: []string{"c11_observations", "c11_post_terminal_mutators"}})
	register(&PropDef{ID: "C10", Gen: genC10, Judge: judgeC10, NonTrivial: func(hi *Hist) bool {
		return len(hi.Ops) >= 6 && len(hi.Sc.Clients) >= 2
	}, Probes: []string{"c10_histories_checked", "c10_overlapping_ops"}})
}

// ---------------------------------------------------------------------------
// C09: sequential reference-model conformance of one bar under background traffic

var c09Totals = []int64{0, 0, -1, -7, 1, 2, 3, 10, 100, 1 << 20, 1 << 40, 1 << 61, math.MinInt64 / 4}

func genC09(r *Rand, tier string, i int) *h.Scenario {
	p := DefaultProfile("C09")
	p.MinBars, p.MaxBars = 0, 3
	p.MaxClients = 2
	p.PQueueAfter = 0
	p.PTerminal = 0.1
	p.PDelay = 0.05
	bg := GenBase(r, &p)
	// the bar under test and its single client become bar/client 0
	sc := &h.Scenario{Prop: "C09", Cont: bg.Cont, Sched: bg.Sched, Main: bg.Main, Post: nil}
	target := h.BarSpec{QueueAfter: -1, Total: c09Totals[r.Intn(len(c09Totals))], Filler: r.Weighted(3, 1, 1, 3), RmOnComp: r.Bool(0.2)}
	if r.Bool(0.3) {
		target.Pre = append(target.Pre, h.DecSpec{Kind: h.DecProbe, Ewma: true, Text: 1})
	}
	sc.Bars = append([]h.BarSpec{target}, bg.Bars...)
	sc.Initial = []int{0}
	for _, b := range bg.Initial {
		sc.Initial = append(sc.Initial, b+1)
	}
	shift := func(ops []h.Op) []h.Op {
		out := make([]h.Op, len(ops))
		for k, op := range ops {
			op.Bar++
			out[k] = op
		}
		return out
	}
	for bi := range sc.Bars {
		if sc.Bars[bi].QueueAfter >= 0 {
			sc.Bars[bi].QueueAfter++
		}
	}
	m := NewRefBar(target.Total)
	var ops []h.Op
	n := r.Range(4, 24)
	if tier == "thorough" {
		n = r.Range(4, 40)
	}
	const lim = int64(1) << 61
	arg := func() int64 {
		switch r.Intn(8) {
		case 0:
			return 0
		case 1:
			return 1
		case 2:
			return -1
		case 3:
			return int64(r.Range(-20, 120))
		case 4:
			if m.Trigger {
				return m.Total - m.Current // exactly up to the total
			}
			return int64(r.Range(0, 9))
		case 5:
			if m.Trigger {
				return m.Total - m.Current - 1
			}
			return -int64(r.Range(0, 9))
		case 6:
			return r.Int63n(lim) - lim/2
		}
		return int64(r.Range(0, 5))
	}
	safeSum := func(a, b int64) bool {
		s := a + b
		return s < lim && s > -lim && a < lim && a > -lim && b < lim && b > -lim
	}
	for k := 0; k < n; k++ {
		var op h.Op
		switch r.Weighted(6, 3, 3, 2, 2, 2, 1, 6) {
		case 0:
			op = h.Op{K: []int{h.OpIncr, h.OpIncrBy, h.OpIncrement}[r.Intn(3)], N: arg()}
			if op.K == h.OpIncrement {
				op.N = 1
			}
			if !safeSum(m.Current, op.N) {
				continue
			}
		case 1:
			op = h.Op{K: []int{h.OpEwmaIncr, h.OpEwmaIncrBy, h.OpEwmaIncrement}[r.Intn(3)], N: arg(), D: int64(r.Range(0, 1000)) * 1000}
			if op.K == h.OpEwmaIncrement {
				op.N = 1
			}
			if !safeSum(m.Current, op.N) {
				continue
			}
		case 2:
			op = h.Op{K: []int{h.OpSetCurrent, h.OpEwmaSetCurrent}[r.Intn(2)], N: arg(), D: 1000}
			if r.Bool(0.3) {
				op.N = m.Current + int64(r.Range(-3, 10))
			}
			if op.N >= lim || op.N <= -lim {
				continue
			}
		case 3:
			op = h.Op{K: h.OpSetTotal, N: arg(), Flag: r.Bool(0.25)}
			if r.Bool(0.3) {
				op.N = m.Current + int64(r.Range(-2, 20))
			}
			if op.N >= lim || op.N <= -lim {
				continue
			}
		case 4:
			op = h.Op{K: h.OpEnableTrigger}
		case 5:
			op = h.Op{K: h.OpSetRefill, N: arg()}
		case 6:
			op = h.Op{K: h.OpAbort, Flag: r.Bool(0.5)}
		case 7:
			op = h.Op{K: []int{h.OpCurrent, h.OpCompleted, h.OpAborted, h.OpPair}[r.Intn(4)]}
		}
		if m.Terminal() && IsMutator(op.K) {
			// past the terminal state only non-decreasing updates are in scope (C11); the one rule C09
			// states for a finished bar: Abort has no effect on a completed one
			if m.Completed && !m.Aborted && r.Bool(0.5) {
				ops = append(ops, h.Op{K: h.OpAbort, Flag: r.Bool(0.5)}, h.Op{K: []int{h.OpPair, h.OpCompleted, h.OpAborted, h.OpCurrent}[r.Intn(4)]})
				if r.Bool(0.4) {
					ops = append(ops, h.Op{K: h.OpSleep, D: genSleep(r, &sc.Cont)}, h.Op{K: h.OpPair})
				}
			}
			continue
		}
		ops = append(ops, op)
		m.Apply(op)
		if IsMutator(op.K) && r.Bool(0.6) {
			ops = append(ops, h.Op{K: []int{h.OpCurrent, h.OpCompleted, h.OpAborted, h.OpPair}[r.Intn(4)]})
		}
		if r.Bool(0.15) {
			ops = append(ops, h.Op{K: h.OpSleep, D: genSleep(r, &sc.Cont)})
		}
		if sc.Cont.Refresh == h.RefManual && r.Bool(0.2) {
			ops = append(ops, h.Op{K: h.OpRefresh})
		}
	}
	if !m.Terminal() {
		op := h.Op{K: h.OpAbort}
		if !m.Trigger && r.Bool(0.5) {
			op = h.Op{K: h.OpSetTotal, N: -1, Flag: true}
		}
		ops = append(ops, op, h.Op{K: h.OpPair}, h.Op{K: h.OpCurrent})
	}
	sc.Clients = append([][]h.Op{ops}, nil...)
	for _, c := range bg.Clients {
		sc.Clients = append(sc.Clients, shift(c))
	}
	return sc
}

func judgeC09(hi *Hist) []*Violation {
	if hi.Res.Outcome != simrt.OK {
		return nil
	}
	var out []*Violation
	add := func(o, f string, a ...interface{}) {
		if len(out) == 0 {
			out = append(out, viol("C09", o, f, a...))
		}
	}
	if hi.Added[0] == nil {
		return nil
	}
	m := NewRefBar(hi.Sc.Bars[0].Total)
	var seq []string
	// state intervals for the statistics check: model state valid from fromIdx until the next mutator's invocation
	type span struct {
		from, to int
		m        RefBar
	}
	var spans []span
	cur := span{from: hi.Added[0].Ret, m: m}
	justFinished := false
	abortAfterComplete := false
	for _, op := range hi.Ops {
		if op.Client != 0 || op.Ret < 0 {
			continue
		}
		if IsMutator(op.Op.K) {
			if m.Completed && !m.Aborted && op.Op.K == h.OpAbort {
				// no effect: the getters that follow are compared with the unchanged reference
				seq = append(seq, "Abort-after-complete")
				justFinished = true
				abortAfterComplete = true
				continue
			}
			if m.Terminal() {
				break
			}
			cur.to = op.Inv
			spans = append(spans, cur)
			m.Apply(op.Op)
			seq = append(seq, fmt.Sprintf("%s(%d,%v)", h.OpNames[op.Op.K], op.Op.N, op.Op.Flag))
			cur = span{from: op.Ret, m: m}
			justFinished = m.Terminal()
			continue
		}
		if m.Terminal() && !justFinished {
			continue
		}
		// getters: compared while the reference is not terminal, and once right after the
		// operation that made it terminal ("reaching it completes the bar")
		note("c09_getters_compared")
		desc := fmt.Sprintf("initial total %d, after %v", hi.Sc.Bars[0].Total, seq)
		switch op.Op.K {
		case h.OpCurrent:
			if op.R != m.Current {
				add("current", "Current() = %d, reference %d (%s)", op.R, m.Current, desc)
			}
		case h.OpCompleted:
			if (op.R == 1) != m.Completed {
				add("completed", "Completed() = %v, reference %v (%s)", op.R == 1, m.Completed, desc)
			}
		case h.OpAborted:
			if (op.R == 1) != m.Aborted {
				add("aborted", "Aborted() = %v, reference %v (%s)", op.R == 1, m.Aborted, desc)
			}
		case h.OpPair:
			if (op.R&1 == 1) != m.Completed || (op.R&2 == 2) != m.Aborted {
				add("pair", "(Completed, Aborted) = (%v, %v), reference (%v, %v) (%s)", op.R&1 == 1, op.R&2 == 2, m.Completed, m.Aborted, desc)
			}
		default:
			continue
		}
		if m.Terminal() && !abortAfterComplete {
			justFinished = false
		}
	}
	cur.to = len(hi.Log)
	if !m.Terminal() {
		spans = append(spans, cur)
	}
	// statistics handed to decorators between two mutators equal the reference state
	for _, sp := range spans {
		if sp.m.Terminal() {
			continue
		}
		for i := sp.from + 1; i < sp.to && i < len(hi.Log); i++ {
			e := &hi.Log[i]
			if e.Kind != h.EvSpy || e.ID != 0 {
				continue
			}
			rec := e.V.(h.SpyRec)
			note("c09_stats_compared")
			if rec.Current != sp.m.Current || rec.Total != sp.m.Total || rec.Refill != sp.m.Refill || rec.Completed != sp.m.Completed || rec.Aborted != sp.m.Aborted {
				add("statistics", "a frame drawn between two operations shows current=%d total=%d refill=%d completed=%v aborted=%v, reference current=%d total=%d refill=%d completed=%v aborted=%v",
					rec.Current, rec.Total, rec.Refill, rec.Completed, rec.Aborted, sp.m.Current, sp.m.Total, sp.m.Refill, sp.m.Completed, sp.m.Aborted)
			}
		}
	}
	return out
}

// afterBarWait checks "after Bar.Wait returns exactly one of the two holds": a back-to-back
// Completed()/Aborted() read that was invoked after a Bar.Wait on the same bar had returned
// must report exactly one of them.
func afterBarWait(hi *Hist, prop string) *Violation {
	waited := map[int]int{} // bar -> earliest return of a Bar.Wait
	for _, op := range hi.Ops {
		if op.Op.K == h.OpBarWait && op.Ret >= 0 {
			if r, ok := waited[op.Op.Bar]; !ok || op.Ret < r {
				waited[op.Op.Bar] = op.Ret
			}
		}
	}
	for _, op := range hi.Ops {
		if (op.Op.K != h.OpPair && op.Op.K != h.OpPairAC) || op.Ret < 0 {
			continue
		}
		if r, ok := waited[op.Op.Bar]; ok && op.Inv > r {
			note("after_barwait_pairs")
			if op.R != 1 && op.R != 2 {
				return viol(prop, "after-bar-wait", "bar %d: Bar.Wait had returned (log %d), yet Completed()=%v and Aborted()=%v (log %d): exactly one must hold", op.Op.Bar, r, op.R&1 == 1, op.R&2 == 2, op.Inv)
			}
		}
	}
	return nil
}

// ---------------------------------------------------------------------------
// C11: terminal state exclusive and stable

func genC11(r *Rand, tier string, i int) *h.Scenario {
	p := DefaultProfile("C11")
	p.RefreshW = [3]int{4, 3, 3}
	p.PZeroTotal = 0.45
	p.PAbortFinish = 0.5
	p.PPostTerminalOps = 0.6
	p.PReaders = 0.7
	p.PRacer = 0.4
	p.PClientAdd = 0.2
	p.PQueueAfter = 0.1 // wave 15: bars that finish while still queued keep their terminal state through the hand-over
	p.WGet = 8
	p.WTotal = 4 // late size corrections on a bar that has finished: valid, ignored, and they change nothing
	p.PLate = 0.5
	p.MaxBars = 4
	sc := GenBase(r, &p)
	if r.Bool(0.25) {
		op := h.Op{K: []int{h.OpCancel, h.OpShutdown}[r.Intn(2)]}
		pos := r.Intn(len(sc.Main) + 1)
		sc.Main = append(sc.Main[:pos:pos], append([]h.Op{op}, sc.Main[pos:]...)...)
	}
	addWatchers(r, sc)
	// a render error while finished bars are still displayed: it cancels the bars, it does not
	// rewrite what a finished bar has already reported
	if r.Bool(0.15) && len(sc.Bars) > 0 {
		site := []int{h.FaultFill, h.FaultFill, h.FaultExt, h.FaultOutWrite}[r.Intn(4)]
		sc.Faults = []h.Fault{{Site: site, Bar: r.Intn(len(sc.Bars)), K: r.Range(1, 9), Err: []int{0, 0, 1, 2, 3, 4, 5, 6}[r.Intn(8)]}}
		if site == h.FaultOutWrite {
			sc.Faults[0].Bar = 0
		}
	}
	return sc
}

// addWatchers adds clients that wait for a bar and read its terminal state the moment Bar.Wait returns.
func addWatchers(r *Rand, sc *h.Scenario) {
	if len(sc.Initial) == 0 || !r.Bool(0.6) {
		return
	}
	for n := r.Range(1, 2); n > 0; n-- {
		b := sc.Initial[r.Intn(len(sc.Initial))]
		sc.Clients = append(sc.Clients, []h.Op{{K: h.OpBarWait, Bar: b}, {K: []int{h.OpPair, h.OpPairAC}[r.Intn(2)], Bar: b}, {K: h.OpPair, Bar: b}})
	}
}

func judgeC11(hi *Hist) []*Violation {
	if hi.Res.Outcome != simrt.OK {
		return nil
	}
	var out []*Violation
	add := func(o, f string, a ...interface{}) {
		if len(out) == 0 {
			out = append(out, viol("C11", o, f, a...))
		}
	}
	type obs struct {
		inv, ret int
		c, a     int // -1 unknown, 0 false, 1 true
		src      string
	}
	per := map[int][]obs{}
	for _, op := range hi.Ops {
		if op.Ret < 0 {
			continue
		}
		switch op.Op.K {
		case h.OpCompleted:
			per[op.Op.Bar] = append(per[op.Op.Bar], obs{op.Inv, op.Ret, int(op.R), -1, "Completed()"})
		case h.OpAborted:
			per[op.Op.Bar] = append(per[op.Op.Bar], obs{op.Inv, op.Ret, -1, int(op.R), "Aborted()"})
		case h.OpPair, h.OpPairAC:
			// two separate calls inside [inv, ret]: each is somewhere in the interval
			per[op.Op.Bar] = append(per[op.Op.Bar], obs{op.Inv, op.Ret, int(op.R & 1), -1, "Completed()"}, obs{op.Inv, op.Ret, -1, int(op.R >> 1 & 1), "Aborted()"})
			if op.R == 3 {
				add("both", "bar %d: back-to-back Completed() and Aborted() both returned true", op.Op.Bar)
			}
		}
	}
	for i := range hi.Log {
		e := &hi.Log[i]
		switch e.Kind {
		case h.EvSpy:
			rec := e.V.(h.SpyRec)
			per[rec.Bar] = append(per[rec.Bar], obs{i, i, int(b2i(rec.Completed)), int(b2i(rec.Aborted)), "Statistics"})
			if rec.Completed && rec.Aborted {
				add("both", "bar %d: Statistics handed to a decorator report Completed and Aborted at once (current %d total %d)", rec.Bar, rec.Current, rec.Total)
			}
		case h.EvFinal:
			rec := e.V.(h.FinalRec)
			per[rec.Bar] = append(per[rec.Bar], obs{i, i, int(b2i(rec.Completed)), int(b2i(rec.Aborted)), "getters after Wait"})
			if rec.Completed == rec.Aborted {
				add("not-exactly-one", "bar %d after Wait: Completed()=%v Aborted()=%v; exactly one must hold", rec.Bar, rec.Completed, rec.Aborted)
			}
			if rec.Running {
				add("still-running", "bar %d after Wait: IsRunning() is true", rec.Bar)
			}
		}
	}
	var perBars []int
	for bar := range per {
		perBars = append(perBars, bar)
	}
	sort.Ints(perBars) // the first violation is the one reported: it must not depend on map order
	for _, bar := range perBars {
		list := per[bar]
		cSeen, aSeen := -1, -1 // earliest return index at which true was observed
		// process in order of return
		for k := 1; k < len(list); k++ {
			for j := k; j > 0 && list[j].ret < list[j-1].ret; j-- {
				list[j], list[j-1] = list[j-1], list[j]
			}
		}
		for _, o := range list {
			note("c11_observations")
			if o.c == 0 && cSeen >= 0 && o.inv > cSeen {
				add("completed-reverted", "bar %d: %s reported not completed (log %d) after Completed had been observed true (log %d)", bar, o.src, o.inv, cSeen)
			}
			if o.a == 1 && cSeen >= 0 && o.inv > cSeen {
				add("aborted-after-completed", "bar %d: %s reported aborted (log %d) after Completed had been observed true (log %d)", bar, o.src, o.inv, cSeen)
			}
			if o.a == 0 && aSeen >= 0 && o.inv > aSeen {
				add("aborted-reverted", "bar %d: %s reported not aborted (log %d) after Aborted had been observed true (log %d)", bar, o.src, o.inv, aSeen)
			}
			if o.c == 1 && aSeen >= 0 && o.inv > aSeen {
				add("completed-after-aborted", "bar %d: %s reported completed (log %d) after Aborted had been observed true (log %d)", bar, o.src, o.inv, aSeen)
			}
			if o.c == 1 && (cSeen < 0 || o.ret < cSeen) {
				cSeen = o.ret
			}
			if o.a == 1 && (aSeen < 0 || o.ret < aSeen) {
				aSeen = o.ret
			}
		}
	}
	if v := afterBarWait(hi, "C11"); v != nil && len(out) == 0 {
		out = append(out, v)
	}
	// a bar ended only by cancellation or Shutdown is reported aborted
	if cancelled(hi) {
		for _, bf := range Facts(hi) {
			if !bf.Added || bf.Final == nil || !bf.Sequential {
				continue
			}
			touched := false
			for _, op := range hi.Ops {
				if op.Op.Bar == bf.Idx && (op.Op.K == h.OpAbort || IsMutator(op.Op.K) && bf.Model.Completed) {
					touched = true
				}
			}
			if !bf.Model.Terminal() && !touched && !bf.Final.Aborted {
				add("cancelled-not-aborted", "bar %d was neither completed nor aborted by its client and the container was cancelled, yet Aborted()=%v Completed()=%v", bf.Idx, bf.Final.Aborted, bf.Final.Completed)
			}
		}
	}
	return out
}

// ---------------------------------------------------------------------------
// C10: linearizability (the race half is the detector, see the worker)

type linState struct {
	Total, Current int64
	Trigger        bool
	Completed      bool
	Aborted        bool
}

type linIn struct {
	Op h.Op
}

func linStep(st linState, op h.Op) []linState {
	rb := RefBar{Total: st.Total, Current: st.Current, Trigger: st.Trigger, Completed: st.Completed, Aborted: st.Aborted}
	if !rb.Terminal() {
		rb.Apply(op)
		return []linState{{rb.Total, rb.Current, rb.Trigger, rb.Completed, rb.Aborted}}
	}
	if st.Completed {
		return []linState{st} // capped at total, nothing changes (non-negative updates only)
	}
	// aborted: the actor may or may not still be alive; a counter update is applied or dropped
	alt := st
	switch op.K {
	case h.OpIncr, h.OpEwmaIncr, h.OpIncrBy, h.OpEwmaIncrBy:
		alt.Current += op.N
	case h.OpIncrement, h.OpEwmaIncrement:
		alt.Current++
	case h.OpSetCurrent, h.OpEwmaSetCurrent:
		if op.N >= 0 {
			alt.Current = op.N
		}
	default:
		return []linState{st}
	}
	if alt.Trigger && alt.Current > alt.Total {
		alt.Current = alt.Total
	}
	if alt == st {
		return []linState{st}
	}
	return []linState{st, alt}
}

func genC10(r *Rand, tier string, i int) *h.Scenario {
	sc := &h.Scenario{Prop: "C10"}
	c := &sc.Cont
	c.Refresh = r.Weighted(5, 2, 2)
	if c.Refresh == h.RefAuto {
		c.RateNS = refreshRates[r.Intn(3)]
	}
	c.QueueLen = -1
	c.Width = 200
	c.Pop = r.Bool(0.15)
	nb := r.Range(1, 3)
	for b := 0; b < nb; b++ {
		bs := h.BarSpec{QueueAfter: -1, Filler: r.Weighted(3, 1, 1, 3), RmOnComp: r.Bool(0.2)}
		if r.Bool(0.3) {
			bs.Total = []int64{0, -1}[r.Intn(2)]
		} else {
			bs.Total = int64(1) << uint(r.Range(3, 14))
			if r.Bool(0.4) {
				bs.Total = 1 << 40 // never reached
			}
		}
		if r.Bool(0.4) {
			bs.Pre = append(bs.Pre, h.DecSpec{Kind: h.DecProbe, Ewma: r.Bool(0.5), Listener: r.Bool(0.3), Text: 2, Vary: 1, C: syncFlagSets[r.Intn(4)]})
		}
		if r.Bool(0.45) {
			bs.App = append(bs.App, h.DecSpec{Kind: []int{h.DecElapsed, h.DecAvgSpeed, h.DecAvgETA, h.DecEwmaSpeed, h.DecEwmaETA, h.DecPercentage, h.DecCounters, h.DecAvgSpeed, h.DecAvgETA}[r.Intn(9)], Fmt: "", Style: r.Intn(4)})
		}
		sc.Bars = append(sc.Bars, bs)
		sc.Initial = append(sc.Initial, b)
	}
	nc := r.Range(2, 4)
	bit := uint(0)
	uniq := int64(7)
	maxOps := 7
	if tier == "thorough" {
		maxOps = 10
	}
	for ci := 0; ci < nc; ci++ {
		var ops []h.Op
		for k, n := 0, r.Range(2, maxOps); k < n; k++ {
			b := r.Intn(nb)
			switch r.Weighted(6, 2, 5, 1, 1, 1, 3, 2) {
			case 7:
				// walking the decorators / moving the averages' start time while the bar is rendered
				if r.Bool(0.3) {
					ops = append(ops, h.Op{K: h.OpTraverse, Bar: b})
				} else {
					ops = append(ops, h.Op{K: h.OpAvgAdjust, Bar: b, N: int64(r.Range(1, 1000))})
				}
			case 6:
				// absolute sets with unique values: a torn read-modify-write shows up as a value nobody set
				uniq += 1000003
				ops = append(ops, h.Op{K: []int{h.OpSetCurrent, h.OpEwmaSetCurrent}[r.Intn(2)], Bar: b, N: uniq % (1 << 38), D: 1000})
			case 0:
				// distinct powers of two: every Current() identifies the set of applied increments
				op := h.Op{K: []int{h.OpIncr, h.OpIncrBy, h.OpEwmaIncr}[r.Intn(3)], Bar: b, N: int64(1) << bit, D: 1000}
				bit++
				if bit > 38 {
					bit = 38
				}
				ops = append(ops, op)
			case 1:
				ops = append(ops, h.Op{K: h.OpIncrement, Bar: b})
			case 2:
				ops = append(ops, h.Op{K: []int{h.OpCurrent, h.OpCompleted, h.OpAborted, h.OpIsRunning, h.OpID}[r.Intn(5)], Bar: b})
			case 3:
				ops = append(ops, h.Op{K: h.OpSetRefill, Bar: b, N: int64(r.Range(0, 100))})
			case 4:
				if sc.Bars[b].Total <= 0 {
					ops = append(ops, h.Op{K: h.OpSetTotal, Bar: b, N: int64(1) << uint(r.Range(2, 12)), Flag: r.Bool(0.3)})
				} else {
					ops = append(ops, h.Op{K: h.OpAbort, Bar: b, Flag: r.Bool(0.3)})
				}
			case 5:
				ops = append(ops, h.Op{K: h.OpSleep, D: genSleep(r, &sc.Cont)})
			}
			if c.Refresh == h.RefManual && r.Bool(0.15) {
				ops = append(ops, h.Op{K: h.OpRefresh})
			}
		}
		sc.Clients = append(sc.Clients, ops)
	}
	// main joins the clients, then finishes every bar and keeps polling through shutdown
	sc.Main = append(sc.Main, h.Op{K: h.OpJoin})
	for b := 0; b < nb; b++ {
		sc.Main = append(sc.Main, h.Op{K: h.OpCurrent, Bar: b})
	}
	for b := 0; b < nb; b++ {
		if r.Bool(0.5) {
			sc.Main = append(sc.Main, h.Op{K: h.OpAbort, Bar: b, Flag: r.Bool(0.3)})
		} else if sc.Bars[b].Total > 0 {
			sc.Main = append(sc.Main, h.Op{K: h.OpSetCurrent, Bar: b, N: sc.Bars[b].Total})
		} else {
			sc.Main = append(sc.Main, h.Op{K: h.OpSetTotal, Bar: b, N: -1, Flag: true}, h.Op{K: h.OpAbort, Bar: b})
		}
	}
	// a poller that keeps reading while bars finish, shut down and after
	var poll []h.Op
	for k, n := 0, r.Range(4, 12); k < n; k++ {
		poll = append(poll, h.Op{K: []int{h.OpCurrent, h.OpCompleted, h.OpAborted, h.OpID, h.OpIsRunning}[r.Intn(5)], Bar: r.Intn(nb)})
		if r.Bool(0.5) {
			poll = append(poll, h.Op{K: h.OpSleep, D: genSleep(r, &sc.Cont)})
		}
	}
	if r.Bool(0.7) {
		// the poller is not joined by main: it may run past Wait
		sc.Main[0] = h.Op{K: h.OpJoinFirst, N: int64(nc)}
		sc.Clients = append(sc.Clients, poll)
	}
	for b := 0; b < nb; b++ {
		sc.Post = append(sc.Post, h.Op{K: []int{h.OpCurrent, h.OpCompleted, h.OpAborted}[r.Intn(3)], Bar: b})
	}
	p := DefaultProfile("C10")
	sc.Sched = genSched(r, &p)
	return sc
}

func judgeC10(hi *Hist) []*Violation {
	if hi.Res.Outcome != simrt.OK {
		return nil
	}
	var out []*Violation
	// DecoratorAverageAdjust / TraverseDecorators are bar operations too: atomic with respect to a render
	for i := range hi.Log {
		if e := &hi.Log[i]; e.Kind == h.EvAvgAdj {
			note("c10_adjust_events")
			if e.S == "overlap" {
				return []*Violation{viol("C10", "adjust-not-atomic", "bar %d: decorator %d/%d was asked to render while its AverageAdjust (called through Bar.DecoratorAverageAdjust) was half done: the adjustment is not atomic with respect to a render cycle", e.ID, e.A, e.B)}
			}
		}
	}
	for b := range hi.Sc.Bars {
		if hi.Added[b] == nil {
			continue
		}
		var ops []porcupine.Operation
		var sum int64
		aborts := false
		for _, op := range hi.Ops {
			if op.Op.Bar != b || op.Ret < 0 {
				continue
			}
			k := op.Op.K
			if !(IsMutator(k) || k == h.OpCurrent || k == h.OpCompleted || k == h.OpAborted) {
				continue
			}
			if k == h.OpSetRefill {
				continue
			}
			if k == h.OpAbort {
				aborts = true
			}
			if k == h.OpIncr || k == h.OpIncrBy || k == h.OpEwmaIncr {
				sum += op.Op.N
			}
			if k == h.OpIncrement {
				sum++
			}
			ops = append(ops, porcupine.Operation{ClientId: op.Client + 2, Input: op.Op, Call: int64(op.Inv), Output: op.R, Return: int64(op.Ret)})
		}
		if len(ops) > 60 {
			ops = ops[:60]
		}
		init := linState{Total: hi.Sc.Bars[b].Total, Trigger: hi.Sc.Bars[b].Total > 0}
		nm := porcupine.NondeterministicModel{
			Init: func() []interface{} { return []interface{}{init} },
			Step: func(state, input, output interface{}) []interface{} {
				st := state.(linState)
				op := input.(h.Op)
				res := output.(int64)
				switch op.K {
				case h.OpCurrent:
					if st.Current == res {
						return []interface{}{st}
					}
					return nil
				case h.OpCompleted:
					if st.Completed == (res == 1) {
						return []interface{}{st}
					}
					return nil
				case h.OpAborted:
					if st.Aborted == (res == 1) {
						return []interface{}{st}
					}
					return nil
				}
				var outS []interface{}
				for _, s := range linStep(st, op) {
					outS = append(outS, s)
				}
				return outS
			},
			Equal: func(a, b interface{}) bool { return a.(linState) == b.(linState) },
			DescribeOperation: func(in, outp interface{}) string {
				op := in.(h.Op)
				return fmt.Sprintf("%s(%d,%v)->%d", h.OpNames[op.K], op.N, op.Flag, outp.(int64))
			},
		}
		model := nm.ToModel()
		note("c10_histories_checked")
		res := porcupine.CheckOperationsTimeout(model, ops, 20*time.Second)
		if res == porcupine.Unknown {
			note("c10_porcupine_unknown")
		}
		if res == porcupine.Illegal {
			var desc []string
			for _, o := range ops {
				desc = append(desc, fmt.Sprintf("c%d[%d,%d] %s", o.ClientId, o.Call, o.Return, model.DescribeOperation(o.Input, o.Output)))
			}
			out = append(out, viol("C10", "not-linearizable", "operations on bar %d (initial total %d) admit no sequential order consistent with the documented rules:\n  %v", b, init.Total, desc))
			return out
		}
		// at quiescence Current equals the capped sum of all increments (no SetCurrent/SetTotal in play, no abort)
		if fin, ok := hi.Finals[b]; ok && !aborts && init.Total > 0 {
			onlyIncr := true
			for _, o := range ops {
				k := o.Input.(h.Op).K
				if k == h.OpSetCurrent || k == h.OpEwmaSetCurrent || k == h.OpSetTotal || k == h.OpEnableTrigger {
					onlyIncr = false
				}
			}
			want := sum
			if want > init.Total {
				want = init.Total
			}
			if onlyIncr && fin.Current != want {
				out = append(out, viol("C10", "lost-update", "bar %d: Current() at quiescence is %d, the capped sum of all increments is %d", b, fin.Current, want))
				return out
			}
		}
	}
	return out
}

func b2i(b bool) int64 {
	if b {
		return 1
	}
	return 0
}
