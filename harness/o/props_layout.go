package o

import (
	"math"
	"sort"
	"strings"

	"verif/sim/simrt"

	"github.com/mattn/go-runewidth"
	"github.com/vbauerster/mpb/v8/decor"
	"github.com/vbauerster/mpb/v8/zzverif/h"
)

func init() {
	register(&PropDef{ID: "C12", Gen: genC12, Judge: judgeC12, NonTrivial: func(hi *Hist) bool {
		n := 0
		for _, b := range hi.Sc.Bars {
			for _, d := range append(append([]h.DecSpec{}, b.Pre...), b.App...) {
				if d.C&decor.DSyncWidth != 0 {
					n++
					break
				}
			}
		}
		return n >= 2 && len(hi.Writes) >= 1
	}, Probes: []string{"c12_columns_checked", "c12_membership_changes"}})
	register(&PropDef{ID: "C06", Gen: genC06, Judge: judgeC06, NonTrivial: func(hi *Hist) bool {
		return len(hi.Added) >= 2 && len(hi.Writes) >= 2
	}, Probes: []string{"c06_frames_ordered", "c06_frames_unspecified", "c06_priority_ops"}})
	register(&PropDef{ID: "C18", Gen: genC18, Judge: judgeC18, NonTrivial: func(hi *Hist) bool {
		return hi.Sc.Cont.Pop && len(hi.Added) >= 1 && len(hi.Writes) >= 3
	}, Probes: []string{"c18_pops_checked"}})
}

// ---------------------------------------------------------------------------
// C12

func genC12(r *Rand, tier string, i int) *h.Scenario {
	p := DefaultProfile("C12")
	p.MinBars, p.MaxBars = 2, 6
	p.PSync = 0.7
	p.MaxDecs = 3
	p.PBuiltin = 0
	p.PWrap = 0.45
	p.PDelay = 0
	p.PTerminal = 0.15
	p.PQueueAfter = 0.1 // wave 15: a successor joins the columns when it takes its predecessor's place
	p.PClientAdd = 0.5
	p.PRm, p.PPop = 0.3, 0.3
	p.PSmallQueue = 0.3
	if tier == "thorough" {
		p.MaxBars = 8
	}
	return GenBase(r, &p)
}

func decNeed(text string, w, c int) int {
	width := runewidth.StringWidth(text)
	if w > width {
		return w
	}
	if c&decor.DextraSpace != 0 {
		width++
	}
	return width
}

func judgeC12(hi *Hist) []*Violation {
	if faulted(hi) || hi.Sc.Cont.Delay {
		return nil
	}
	if hi.Res.Outcome == simrt.Deadlock || hi.Res.Outcome == simrt.Hang {
		// bars joining or leaving must not disturb the others: a bar parked for ever in the
		// width exchange (WC.Format) is the extreme form of that
		for _, g := range hi.Res.Live {
			if strings.Contains(g.ParkedOn, "@decorator.go:") {
				return []*Violation{viol("C12", "sync-stuck", "%v: a bar is parked for ever in the width exchange of a synchronised column (membership of the column went stale)\n%s", hi.Res.Outcome, describeLive(hi.Res))}
			}
		}
		return nil
	}
	if hi.Res.Outcome != simrt.OK {
		return nil
	}
	frames := ParseFrames(hi)
	var out []*Violation
	add := func(o, f string, a ...interface{}) {
		if len(out) == 0 {
			out = append(out, viol("C12", o, f, a...))
		}
	}
	wide := hi.Sc.Cont.Width >= 150 || (hi.Sc.Cont.Terminal && hi.Sc.Cont.TermW >= 150 && hi.Sc.Cont.Width == 0)
	for k, f := range frames {
		if f.W.Err != "" {
			break
		}
		type key struct{ side, col int }
		cols := map[key][]h.FmtRec{}
		perDec := map[[3]int]int{}
		for _, rec := range f.Fmt {
			perDec[[3]int{rec.Bar, rec.Side, rec.Ord}]++
			need := decNeed(rec.Text, rec.W, rec.C)
			if DisplayWidth(rec.Out) != rec.OutW {
				add("width-mismatch", "frame %d: decorator %d/%d/%d returned %q whose display width is %d but reported width %d", k, rec.Bar, rec.Side, rec.Ord, rec.Out, DisplayWidth(rec.Out), rec.OutW)
			}
			if rec.C&decor.DSyncWidth == 0 {
				if rec.OutW != need {
					add("plain-width", "frame %d: plain decorator %d/%d/%d with text %q (W=%d C=%d) got width %d, wants %d", k, rec.Bar, rec.Side, rec.Ord, rec.Text, rec.W, rec.C, rec.OutW, need)
				}
				continue
			}
			// ordinal among the synchronised decorators of this bar's side
			list := hi.Sc.Bars[rec.Bar].Pre
			if rec.Side == 1 {
				list = hi.Sc.Bars[rec.Bar].App
			}
			col := 0
			for j := 0; j < rec.Ord && j < len(list); j++ {
				if list[j].C&decor.DSyncWidth != 0 {
					col++
				}
			}
			cols[key{rec.Side, col}] = append(cols[key{rec.Side, col}], rec)
		}
		for d, n := range perDec {
			if n != 1 {
				add("format-count", "frame %d: decorator %v was formatted %d times in one render cycle", k, d, n)
			}
		}
		// every bar drawn in this frame took part with all its synchronised decorators
		drawn := map[int]bool{}
		for _, g := range f.Groups {
			drawn[g.Bar] = true
		}
		var colKeys []key
		for kk := range cols {
			colKeys = append(colKeys, kk)
		}
		sort.Slice(colKeys, func(i, j int) bool {
			if colKeys[i].side != colKeys[j].side {
				return colKeys[i].side < colKeys[j].side
			}
			return colKeys[i].col < colKeys[j].col
		}) // the first violation is the one reported: it must not depend on map order
		for _, kk := range colKeys {
			recs := cols[kk]
			if len(recs) >= 2 {
				note("c12_columns_checked")
			}
			max := 0
			for _, rec := range recs {
				if n := decNeed(rec.Text, rec.W, rec.C); n > max {
					max = n
				}
				if !drawn[rec.Bar] && wide {
					add("ghost-member", "frame %d: bar %d took part in column %v but is not drawn in the frame: %s", k, rec.Bar, kk, f)
				}
			}
			for _, rec := range recs {
				if rec.OutW != max {
					add("column-width", "frame %d: side %d column %d: bar %d's decorator got width %d but the column needs %d (members: %s)", k, kk.side, kk.col, rec.Bar, rec.OutW, max, describeCol(recs))
				}
				if wide {
					if g := f.GroupOf(rec.Bar); g != nil && g.Main >= 0 && !strings.Contains(stripSGR(f.Rows[g.Main].Text), rec.Out) {
						add("not-on-screen", "frame %d: bar %d's synchronised field %q is not in its row %q", k, rec.Bar, rec.Out, f.Rows[g.Main].Text)
					}
				}
			}
		}
	}
	return out
}

func describeCol(recs []h.FmtRec) string {
	var sb strings.Builder
	for _, r := range recs {
		sb.WriteString("[bar " + itoa(r.Bar) + " text " + strconvQuote(r.Text) + " W=" + itoa(r.W) + " C=" + itoa(r.C) + " -> " + itoa(r.OutW) + "] ")
	}
	return sb.String()
}

func strconvQuote(s string) string { return "\"" + s + "\"" }

// ---------------------------------------------------------------------------
// C06

func genC06(r *Rand, tier string, i int) *h.Scenario {
	p := DefaultProfile("C06")
	p.MinBars, p.MaxBars = 2, 6
	p.PClientAdd = 0 // creation order must be known: main adds every bar
	p.WPrio = 10
	p.PExplicitPrio = 0.4
	p.PDelay = 0
	p.PTerminal = 0.1
	p.PQueueAfter = 0.15
	p.PPop = 0.3
	p.PrioAfterFinish = true
	p.PPostTerminalOps = 0.5
	p.MaxDecs = 1
	p.PExt = 0.1
	if tier == "thorough" {
		p.MaxBars = 8
		p.MaxOps = 20
	}
	return GenBase(r, &p)
}

type member struct {
	bar  int
	set  []int
	popd bool
}

type prioAssign struct {
	inv, ret int
	prio     int
	lazy     bool
	maybe    bool // may or may not have taken effect (raced with a hand-over or with shutdown)
}

func judgeC06(hi *Hist) []*Violation {
	if hi.Res.Outcome != simrt.OK || faulted(hi) || hi.Sc.Cont.Delay {
		return nil
	}
	frames := ParseFrames(hi)
	facts := Facts(hi)
	var out []*Violation
	add := func(o, f string, a ...interface{}) {
		if len(out) == 0 {
			out = append(out, viol("C06", o, f, a...))
		}
	}
	// creation priorities: explicit, or the number of bars created before (Add calls must not overlap)
	type ad struct {
		bar      int
		inv, ret int
	}
	var adds []ad
	for b, op := range hi.Added {
		adds = append(adds, ad{b, op.Inv, op.Ret})
	}
	sort.Slice(adds, func(i, j int) bool { return adds[i].inv < adds[j].inv })
	for i := 1; i < len(adds); i++ {
		if adds[i].inv < adds[i-1].ret {
			return nil // overlapping Adds: creation order unknown to the harness
		}
	}
	hist := map[int][]prioAssign{}
	// failed Adds (ErrDone) do not consume an id
	for k, a := range adds {
		bs := facts[a.bar].Spec
		p := k
		if bs.HasPrio {
			p = bs.Prio
		}
		hist[a.bar] = append(hist[a.bar], prioAssign{a.inv, a.ret, p, false, false})
	}
	for _, op := range hi.Ops {
		if op.Ret < 0 {
			if op.Op.K == h.OpSetPriority || op.Op.K == h.OpUpdatePriority {
				return nil
			}
			continue
		}
		switch op.Op.K {
		case h.OpSetPriority:
			hist[op.Op.Bar] = append(hist[op.Op.Bar], prioAssign{op.Inv, op.Ret, int(op.Op.N), false, false})
		case h.OpUpdatePriority:
			hist[op.Op.Bar] = append(hist[op.Op.Bar], prioAssign{op.Inv, op.Ret, int(op.Op.N), op.Op.Flag, false})
		}
	}
	// the container can only be done once every bar has finished: a priority call that returned before
	// the last bar's finishing call was even invoked cannot have lost the race with shutdown
	doneNotBefore := -1
	for _, bf := range facts {
		if !bf.Added {
			continue
		}
		if bf.TermInv < 0 {
			doneNotBefore = len(hi.Log) // some bar was never finished by a client call (cancelled?): be permissive
			if hi.WaitIn >= 0 {
				doneNotBefore = hi.WaitIn
			}
			break
		}
		if bf.TermInv > doneNotBefore {
			doneNotBefore = bf.TermInv
		}
	}
	if hi.WaitIn > doneNotBefore {
		doneNotBefore = hi.WaitIn
	}
	lastFrameOf := map[int]int{}
	firstFrameOf := map[int]int{}
	for k, f := range frames {
		for _, g := range f.Groups {
			lastFrameOf[g.Bar] = k
			if _, ok := firstFrameOf[g.Bar]; !ok {
				firstFrameOf[g.Bar] = k
			}
		}
	}
	// a bar queued after another takes the place its predecessor has when it leaves: it inherits the
	// predecessor's assignments up to the hand-over; what was assigned to the waiting bar itself does not count
	for range facts {
		for _, bf := range facts {
			if !bf.Added || !bf.Queued {
				continue
			}
			first, shown := firstFrameOf[bf.Idx]
			if !shown {
				continue
			}
			handover := cycleFirstEvent(hi, frames, first)
			if first > 0 {
				handover = cycleFirstEvent(hi, frames, first-1)
			}
			var list []prioAssign
			for _, a := range hist[bf.Pred] {
				if a.inv < frames[first].W.At {
					if a.ret >= handover {
						a.maybe = true // still in flight when the predecessor handed over: inherited or not
					}
					list = append(list, a)
				}
			}
			for _, op := range hi.Ops {
				if op.Op.Bar != bf.Idx || op.Ret < 0 || (op.Op.K != h.OpSetPriority && op.Op.K != h.OpUpdatePriority) {
					continue
				}
				if op.Ret >= handover {
					list = append(list, prioAssign{op.Inv, op.Ret, int(op.Op.N), op.Op.K == h.OpUpdatePriority && op.Op.Flag, op.Inv < frames[first].W.At})
				}
			}
			hist[bf.Idx] = list
		}
	}
	for k, f := range frames {
		lo := -1
		if k > 0 {
			lo = frames[k-1].W.At
		}
		hiB := cycleFirstEvent(hi, frames, k)
		loPrev := -1
		if k > 1 {
			loPrev = frames[k-2].W.At
		}
		// the single frame after a lazy change is unspecified
		unspecified := false
		for _, list := range hist {
			for _, a := range list {
				if a.lazy && a.inv < hiB && a.ret > loPrev {
					unspecified = true
				}
			}
		}
		// pop mode: a finished poppable bar is on its way to the top
		var seq []member
		for _, g := range f.Groups {
			if g.Bar < 0 || g.Bar >= len(facts) {
				continue
			}
			m := member{bar: g.Bar}
			if poppable(hi, facts[g.Bar]) && isTerminalFlags(g.Flags) {
				m.popd = true
			}
			list := hist[g.Bar]
			// assignments in the order in which they returned; one that returned only after Wait had been
			// entered may have lost the race with the container's shutdown (the call then does nothing)
			ord := append([]prioAssign{}, list...)
			sort.Slice(ord, func(i, j int) bool { return ord[i].ret < ord[j].ret })
			for _, a := range ord {
				settledBefore := a.ret < lo || (k == 0 && a.ret < hiB)
				maybe := a.maybe || (hi.WaitIn >= 0 && a.ret > doneNotBefore)
				switch {
				case settledBefore && !maybe:
					m.set = []int{a.prio}
				case settledBefore && maybe:
					m.set = append(m.set, a.prio)
				case a.inv < hiB && a.ret >= lo:
					m.set = append(m.set, a.prio) // overlaps the start of this cycle
				}
			}
			if len(m.set) == 0 && len(list) > 0 {
				m.set = append(m.set, list[0].prio)
			}
			sort.Ints(m.set)
			seq = append(seq, m)
		}
		if unspecified {
			note("c06_frames_unspecified")
			continue
		}
		note("c06_frames_ordered")
		// popped bars: in the frame in which they are popped they sit above every bar that stays
		for i, m := range seq {
			if m.popd && lastFrameOf[m.bar] == k && k < len(frames)-1 {
				for j := 0; j < i; j++ {
					if !seq[j].popd {
						add("pop-not-on-top", "frame %d: finished bar %d is popped below bar %d which is still running: %s", k, m.bar, seq[j].bar, f)
					}
				}
			}
		}
		cur := math.MinInt64
		for _, m := range seq {
			if m.popd {
				continue
			}
			ok := false
			for _, p := range m.set {
				if p >= cur {
					cur = p
					ok = true
					break
				}
			}
			if !ok {
				add("order", "frame %d is not laid out by priority: bar %d (possible priorities %v) is below a bar of priority %d: %s\npriorities at this cycle: %s", k, m.bar, m.set, cur, f, describePrio(seq))
				break
			}
		}
	}
	return out
}

func describePrio(seq []member) string {
	var sb strings.Builder
	for _, m := range seq {
		sb.WriteString("B" + itoa(m.bar) + "=")
		for i, p := range m.set {
			if i > 0 {
				sb.WriteString("|")
			}
			sb.WriteString(itoa(p))
		}
		sb.WriteString(" ")
	}
	return sb.String()
}

// ---------------------------------------------------------------------------
// C18

func genC18(r *Rand, tier string, i int) *h.Scenario {
	p := DefaultProfile("C18")
	p.MinBars, p.MaxBars = 1, 6
	p.PPop = 1
	p.PNoPop = 0.25
	p.PExt = 0.4
	p.WWrite = 5
	p.PTerminal = 0.5
	p.PTightTerm = 0.3
	p.PDelay = 0
	p.PQueueAfter = 0.08
	p.RefreshW = [3]int{7, 2, 0}
	p.PRm = 0.2
	if tier == "thorough" {
		p.MaxBars = 8
	}
	if r.Bool(0.1) {
		sc := genAnonPipeline(r, "C18")
		sc.Cont.Pop = true
		for b := range sc.Bars {
			sc.Bars[b].RmOnComp = false
		}
		return sc
	}
	return GenBase(r, &p)
}

func judgeC18(hi *Hist) []*Violation {
	if (hi.Res.Outcome == simrt.Deadlock || hi.Res.Outcome == simrt.Hang) && !faulted(hi) && hi.Sc.Cont.Pop && !hi.Sc.Cont.Delay && !cancelled(hi) {
		// rendering stopped for good with a finished bar still waiting to be moved to the top
		frames := ParseFrames(hi)
		for _, bf := range Facts(hi) {
			if !bf.Added || !poppable(hi, bf) || !bf.Sequential || !bf.Model.Terminal() || len(frames) == 0 {
				continue
			}
			last := frames[len(frames)-1]
			if g := last.GroupOf(bf.Idx); g != nil && isTerminalFlags(g.Flags) {
				return []*Violation{viol("C18", "pop-stuck", "%v: bar %d is shown finished in the last frame that was ever written (frame %d) but is never moved above the running bars: rendering stopped\n%s%s", hi.Res.Outcome, bf.Idx, len(frames)-1, stuckOps(hi), describeLive(hi.Res))}
			}
		}
		return nil
	}
	if hi.Res.Outcome != simrt.OK || faulted(hi) || !hi.Sc.Cont.Pop || hi.Sc.Cont.Delay {
		return nil
	}
	frames := ParseFrames(hi)
	facts := Facts(hi)
	if v := screenCheck(hi, frames, facts, "C18"); v != nil {
		return []*Violation{v}
	}
	if hi.Sc.Cont.Anon {
		return nil // anonymous bars: rows cannot be told apart, the screen equation is all there is
	}
	var out []*Violation
	add := func(o, f string, a ...interface{}) {
		if len(out) == 0 {
			out = append(out, viol("C18", o, f, a...))
		}
	}
	// the per-bar rules below read a bar's history off the frames: they need every rendered bar to
	// be visible, i.e. no frame clipped by the terminal height (the screen equation above has no such limit)
	for _, f := range frames {
		rendered := 0
		for range f.Spy {
			rendered++
		}
		if rendered > len(f.Groups) {
			return nil
		}
		for _, g := range f.Groups {
			if g.Bar >= 0 && g.Bar < len(facts) && g.To-g.From < 1+facts[g.Bar].Spec.ExtRows {
				return nil
			}
		}
	}
	lastFrameOf, firstTerm := map[int]int{}, map[int]int{}
	for k, f := range frames {
		for _, g := range f.Groups {
			lastFrameOf[g.Bar] = k
			if _, ok := firstTerm[g.Bar]; !ok && isTerminalFlags(g.Flags) {
				firstTerm[g.Bar] = k
			}
		}
	}
	auto := AutoMode(hi.Sc) && hi.WaitOut >= 0 && !cancelled(hi)
	var popOrder []int
	for _, bf := range facts {
		if !bf.Added {
			continue
		}
		L, seen := lastFrameOf[bf.Idx]
		if !seen {
			// "drawn there in its finished state": a finished bar that was never drawn at all
			must := auto
			if !auto && bf.Queued && hi.Sc.Cont.Refresh == h.RefManual && !cancelled(hi) {
				// manual refresh: a successor created before its predecessor's last frame takes over in the next one
				if lp, ok := lastFrameOf[bf.Pred]; ok && lp < len(frames)-1 && bf.AddRet < cycleFirstEvent(hi, frames, lp) {
					must = true
				}
			}
			if must && !(hi.Sc.Cont.Terminal && hi.Sc.Cont.TermH < 2) && poppable(hi, bf) && bf.Final != nil && (bf.Final.Completed || bf.Final.Aborted) && !(bf.Sequential && bf.Model.Aborted && bf.Model.Drop) {
				add("never-shown", "bar %d finished (completed=%v aborted=%v) in pop-completed mode but no frame ever shows it (%d frames)", bf.Idx, bf.Final.Completed, bf.Final.Aborted, len(frames))
			}
			continue
		}
		if !poppable(hi, bf) {
			// no-pop bars and bars with a successor never leave through the top
			if len(bf.Succ) == 0 && L < len(frames)-1 && !removableNoPop(hi, bf) {
				add("nopop-left", "bar %d is not poppable (no-pop) but disappears after frame %d: %s", bf.Idx, L, frames[L])
			}
			continue
		}
		g := frames[L].GroupOf(bf.Idx)
		if L < len(frames)-1 {
			// popped in frame L: finished, and above everything that is drawn again later
			if !isTerminalFlags(g.Flags) {
				add("popped-unfinished", "bar %d leaves the live region after frame %d but is not shown finished there: %s", bf.Idx, L, frames[L])
			}
			for _, og := range frames[L].Groups {
				if og.Bar == bf.Idx {
					break
				}
				if lastFrameOf[og.Bar] > L {
					add("popped-below-live", "bar %d is popped in frame %d below bar %d, which is drawn again later: %s", bf.Idx, L, og.Bar, frames[L])
				}
			}
			popOrder = append(popOrder, bf.Idx)
			note("c18_pops_checked")
		} else if auto && bf.Final != nil && (bf.Final.Completed || bf.Final.Aborted) {
			// still in the last frame: it must be finished there (it stays on screen as drawn)
			if g != nil && !isTerminalFlags(g.Flags) {
				add("final-unfinished", "bar %d finished but the last frame shows it running: %s", bf.Idx, frames[L])
			}
		}
		// finished bars take no further part in rendering: at most 3 finished frames
		if ft, ok := firstTerm[bf.Idx]; ok && L-ft > 2 {
			add("popped-late", "bar %d is shown finished from frame %d on but still rendered in frame %d", bf.Idx, ft, L)
		}
	}
	// order of finishing: a bar popped in an earlier frame finished (was first shown finished) no later
	sort.Slice(popOrder, func(i, j int) bool { return lastFrameOf[popOrder[i]] < lastFrameOf[popOrder[j]] })
	for i := 1; i < len(popOrder); i++ {
		a, b := popOrder[i-1], popOrder[i]
		if lastFrameOf[a] < lastFrameOf[b] && firstTerm[a] > firstTerm[b] {
			add("pop-order", "bar %d was shown finished first (frame %d) but bar %d (finished in frame %d) is popped before it", b, firstTerm[b], a, firstTerm[a])
		}
	}
	return out
}

// removableNoPop: a no-pop bar may still leave when it is set to be removed.
func removableNoPop(hi *Hist, bf *BarFacts) bool {
	if bf.Sequential && bf.Model.Aborted {
		return bf.Model.Drop
	}
	if bf.Spec.RmOnComp {
		return true
	}
	for _, op := range hi.Ops {
		if op.Op.K == h.OpAbort && op.Op.Bar == bf.Idx && op.Op.Flag {
			return true
		}
	}
	return false
}
