package o

import (
	"github.com/vbauerster/mpb/v8/zzverif/h"
)

// BarFacts collects what the history says about one bar.
type BarFacts struct {
	Idx        int
	Spec       *h.BarSpec
	Added      bool
	AddInv     int
	AddRet     int
	Queued     bool // created with BarQueueAfter of a bar that existed
	Pred       int
	Succ       []int // bars queued after this one
	Sequential bool  // no two mutators of this bar overlapped in time
	Model      RefBar
	Final      *h.FinalRec
	TermAt     int // log index of the return of the mutator that made the model terminal (-1)
	TermInv    int // log index of that mutator's invocation (-1)
}

// Facts derives per-bar facts from a history.
func Facts(hi *Hist) []*BarFacts {
	out := make([]*BarFacts, len(hi.Sc.Bars))
	for i := range out {
		out[i] = &BarFacts{Idx: i, Spec: &hi.Sc.Bars[i], Pred: -1, AddInv: -1, AddRet: -1, TermAt: -1, TermInv: -1, Sequential: true, Model: NewRefBar(hi.Sc.Bars[i].Total)}
		if f, ok := hi.Finals[i]; ok {
			ff := f
			out[i].Final = &ff
		}
	}
	for i, op := range hi.Added {
		bf := out[i]
		bf.Added = true
		bf.AddInv, bf.AddRet = op.Inv, op.Ret
	}
	for i, bf := range out {
		q := bf.Spec.QueueAfter
		if bf.Added && q >= 0 && out[q].Added && out[q].AddRet < bf.AddInv {
			bf.Queued = true
			bf.Pred = q
			out[q].Succ = append(out[q].Succ, i)
		}
	}
	last := map[int]*OpRec{}
	for _, op := range hi.Ops {
		if !IsMutator(op.Op.K) {
			continue
		}
		bf := out[op.Op.Bar]
		if !bf.Added {
			continue
		}
		if p := last[op.Op.Bar]; p != nil && (p.Ret < 0 || p.Ret > op.Inv) {
			bf.Sequential = false
		}
		last[op.Op.Bar] = op
		was := bf.Model.Terminal()
		bf.Model.Apply(op.Op)
		if !was && bf.Model.Terminal() {
			bf.TermAt = op.Ret
			bf.TermInv = op.Inv
		}
	}
	return out
}

// cancelled reports whether the scenario stops the container other than by Wait.
func cancelled(hi *Hist) bool {
	if hi.InjectAt >= 0 {
		return true
	}
	for _, op := range hi.Ops {
		if (op.Op.K == h.OpCancel || op.Op.K == h.OpShutdown) && (hi.WaitOut < 0 || op.Inv < hi.WaitOut) {
			return true
		}
	}
	return false
}

func faulted(hi *Hist) bool {
	for k, n := range hi.Faults {
		if k != "inject" && n > 0 {
			return true
		}
	}
	return false
}
