package o

import (
	"encoding/json"

	"github.com/vbauerster/mpb/v8/zzverif/h"
)

// CountOps returns the number of client operations of a scenario.
func CountOps(sc *h.Scenario) int {
	n := len(sc.Main) + len(sc.Post) + len(sc.Initial)
	for _, c := range sc.Clients {
		n += len(c)
	}
	return n
}

func cloneScenario(sc *h.Scenario) *h.Scenario {
	b, _ := json.Marshal(sc)
	out := &h.Scenario{}
	_ = json.Unmarshal(b, out)
	return out
}

func hasCancel(sc *h.Scenario) bool {
	if sc.InjectKind != 0 {
		return true
	}
	all := append([][]h.Op{sc.Main}, sc.Clients...)
	for _, ops := range all {
		for _, op := range ops {
			if op.K == h.OpCancel || op.K == h.OpShutdown {
				return true
			}
		}
	}
	return false
}

// ValidProgram checks the structural rules that make a scenario a valid
// client of the library: every added bar is finished by its (single) owner,
// or the program cancels; a client adds a bar only while it still owns an
// unfinished one. Used by the minimiser so that a reduced program cannot fail
// for reasons that are the client's fault.
func ValidProgram(sc *h.Scenario) bool {
	cancels := hasCancel(sc)
	initial := map[int]bool{}
	for _, i := range sc.Initial {
		if i < 0 || i >= len(sc.Bars) || initial[i] {
			return false
		}
		initial[i] = true
	}
	users := map[int]map[int]bool{} // bar -> set of lists using it with mutators
	lists := append([][]h.Op{sc.Main}, sc.Clients...)
	for li, ops := range lists {
		for _, op := range ops {
			if IsMutator(op.K) || op.K == h.OpAdd {
				if users[op.Bar] == nil {
					users[op.Bar] = map[int]bool{}
				}
				users[op.Bar][li] = true
			}
		}
	}
	for li, ops := range lists {
		models := map[int]*RefBar{}
		for i := range initial {
			if len(users[i]) == 1 && users[i][li] {
				m := NewRefBar(sc.Bars[i].Total)
				models[i] = &m
			}
		}
		live := func() int {
			n := 0
			for _, m := range models {
				if !m.Terminal() {
					n++
				}
			}
			return n
		}
		for _, op := range ops {
			if op.K == h.OpAdd {
				if op.Bar < 0 || op.Bar >= len(sc.Bars) || initial[op.Bar] || models[op.Bar] != nil {
					return false
				}
				if li > 0 && live() == 0 && !cancels {
					return false
				}
				if len(users[op.Bar]) != 1 {
					return false
				}
				m := NewRefBar(sc.Bars[op.Bar].Total)
				models[op.Bar] = &m
				continue
			}
			if m := models[op.Bar]; m != nil && IsMutator(op.K) {
				m.Apply(op)
			}
		}
		if !cancels && live() > 0 {
			return false
		}
	}
	// bars with no single owner must be finished by somebody: accept only if
	// some list still holds a mutator for them (the original generator's rule)
	if !cancels {
		for i := range initial {
			if len(users[i]) == 0 {
				return false
			}
			if len(users[i]) > 1 {
				return false // handled by keepShared in the minimiser
			}
		}
	}
	return true
}

// Minimize shrinks a failing (scenario, schedule) pair. test reports whether
// the same oracle still fails for a candidate executed in replay mode.
func Minimize(sc *h.Scenario, choices []int32, test func(*h.Scenario, []int32) bool) (*h.Scenario, []int32) {
	cur, cc := cloneScenario(sc), append([]int32(nil), choices...)
	shared := !ValidProgram(cur) // programs outside the simple ownership rules: only drop non-mutators
	try := func(cand *h.Scenario) bool {
		if !shared && !ValidProgram(cand) {
			return false
		}
		if test(cand, cc) {
			cur = cand
			return true
		}
		if test(cand, nil) {
			cur, cc = cand, nil
			return true
		}
		return false
	}
	for round := 0; round < 4; round++ {
		before := CountOps(cur) + len(cc)
		// drop whole clients
		for i := len(cur.Clients) - 1; i >= 0; i-- {
			cand := cloneScenario(cur)
			cand.Clients = append(cand.Clients[:i:i], cand.Clients[i+1:]...)
			if cand.Cont.UserWG {
				cand.Cont.UserWG = false
			}
			try(cand)
		}
		// drop bars with everything that touches them
		for b := len(cur.Bars) - 1; b >= 0; b-- {
			cand := cloneScenario(cur)
			dropBar(cand, b)
			try(cand)
		}
		// drop single operations
		dropOps := func(get func(*h.Scenario) *[]h.Op) {
			for i := len(*get(cur)) - 1; i >= 0; i-- {
				if i >= len(*get(cur)) {
					continue
				}
				op := (*get(cur))[i]
				if shared && (IsMutator(op.K) || op.K == h.OpAdd || op.K == h.OpJoin || op.K == h.OpJoinFirst) {
					continue
				}
				cand := cloneScenario(cur)
				l := get(cand)
				*l = append((*l)[:i:i], (*l)[i+1:]...)
				try(cand)
			}
		}
		dropOps(func(s *h.Scenario) *[]h.Op { return &s.Post })
		dropOps(func(s *h.Scenario) *[]h.Op { return &s.Main })
		for ci := range cur.Clients {
			ci := ci
			dropOps(func(s *h.Scenario) *[]h.Op { return &s.Clients[ci] })
		}
		// simplify configuration
		simp := []func(*h.Scenario) bool{
			func(s *h.Scenario) bool { ok := s.Cont.Pop; s.Cont.Pop = false; return ok },
			func(s *h.Scenario) bool { ok := s.Cont.Delay; s.Cont.Delay = false; return ok },
			func(s *h.Scenario) bool { ok := s.Cont.Notifier != 0; s.Cont.Notifier = 0; return ok },
			func(s *h.Scenario) bool { ok := s.Cont.UserWG; s.Cont.UserWG = false; return ok },
			func(s *h.Scenario) bool { ok := len(s.Cont.Resizes) > 0; s.Cont.Resizes = nil; return ok },
			func(s *h.Scenario) bool {
				ok := s.Cont.Terminal
				s.Cont.Terminal = false
				if s.Cont.Width == 0 {
					s.Cont.Width = s.Cont.TermW
				}
				return ok
			},
			func(s *h.Scenario) bool { ok := s.Serial > 1; s.Serial = 0; return ok },
			func(s *h.Scenario) bool { ok := s.Cont.QueueLen != -1; s.Cont.QueueLen = -1; return ok },
			func(s *h.Scenario) bool { ok := len(s.Faults) > 0; s.Faults = nil; return ok },
		}
		for _, f := range simp {
			cand := cloneScenario(cur)
			if f(cand) {
				try(cand)
			}
		}
		for b := range cur.Bars {
			for side := 0; side < 2; side++ {
				for {
					cand := cloneScenario(cur)
					l := &cand.Bars[b].Pre
					if side == 1 {
						l = &cand.Bars[b].App
					}
					if len(*l) == 0 {
						break
					}
					*l = (*l)[:len(*l)-1]
					if !try(cand) {
						break
					}
				}
			}
			cand := cloneScenario(cur)
			bs := &cand.Bars[b]
			if bs.FillOnComplete || bs.FillOnAbort || bs.Width > 0 {
				bs.FillOnComplete, bs.FillOnAbort, bs.Width = false, false, 0
				try(cand)
				cand = cloneScenario(cur)
				bs = &cand.Bars[b]
			}
			if bs.ExtRows > 0 || bs.RmOnComp || bs.NoPop || bs.Trim || bs.HasPrio || bs.Filler != h.FillProbe {
				bs.ExtRows, bs.ExtNoNL, bs.RmOnComp, bs.NoPop, bs.Trim, bs.HasPrio, bs.Filler = 0, false, false, false, false, false, h.FillProbe
				try(cand)
			}
			for side := 0; side < 2; side++ {
				l := cur.Bars[b].Pre
				if side == 1 {
					l = cur.Bars[b].App
				}
				for k := range l {
					if len(l[k].Wrap) > 0 || l[k].Listener || l[k].Ewma {
						cand := cloneScenario(cur)
						ll := cand.Bars[b].Pre
						if side == 1 {
							ll = cand.Bars[b].App
						}
						ll[k].Wrap, ll[k].Listener, ll[k].Ewma = nil, false, false
						try(cand)
					}
				}
			}
		}
		// schedule: truncate, then zero chunks
		for len(cc) > 0 {
			half := cc[:len(cc)/2]
			if test(cur, half) {
				cc = append([]int32(nil), half...)
			} else {
				break
			}
		}
		for chunk := len(cc) / 2; chunk >= 1; chunk /= 2 {
			for s := 0; s+chunk <= len(cc); s += chunk {
				allZero := true
				for _, x := range cc[s : s+chunk] {
					if x != 0 {
						allZero = false
					}
				}
				if allZero {
					continue
				}
				cand := append([]int32(nil), cc...)
				for k := s; k < s+chunk; k++ {
					cand[k] = 0
				}
				if test(cur, cand) {
					cc = cand
				}
			}
			if chunk == 1 {
				break
			}
		}
		for len(cc) > 0 && cc[len(cc)-1] == 0 {
			cc = cc[:len(cc)-1]
		}
		if CountOps(cur)+len(cc) >= before {
			break
		}
	}
	return cur, cc
}

// dropBar removes a bar's creation and every operation on it (indices stay stable).
func dropBar(sc *h.Scenario, b int) {
	var init []int
	for _, i := range sc.Initial {
		if i != b {
			init = append(init, i)
		}
	}
	sc.Initial = init
	usesBar := func(op h.Op) bool {
		switch op.K {
		case h.OpWrite, h.OpRefresh, h.OpCloseDelay, h.OpCancel, h.OpShutdown, h.OpSleep, h.OpReadNotifier, h.OpWait, h.OpJoin, h.OpFair, h.OpJoinFirst, h.OpCloseRefresh:
			return false
		}
		return op.Bar == b
	}
	filter := func(ops []h.Op) []h.Op {
		var out []h.Op
		for _, op := range ops {
			if !usesBar(op) {
				out = append(out, op)
			}
		}
		return out
	}
	sc.Main = filter(sc.Main)
	sc.Post = filter(sc.Post)
	for i := range sc.Clients {
		sc.Clients[i] = filter(sc.Clients[i])
	}
	for i := range sc.Bars {
		if sc.Bars[i].QueueAfter == b {
			sc.Bars[i].QueueAfter = -1
		}
	}
	var fl []h.Fault
	for _, f := range sc.Faults {
		if !((f.Site == h.FaultFill || f.Site == h.FaultExt) && f.Bar == b) {
			fl = append(fl, f)
		}
	}
	sc.Faults = fl
}
