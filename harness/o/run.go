package o

import (
	"verif/sim/simrt"

	"github.com/vbauerster/mpb/v8/zzverif/h"
)

// Budgets of one run.
const (
	DefaultMaxSteps = 60000
	FairBudget      = 150000
	PostBudget      = 30000
)

// Execute runs a scenario; with replay set the recorded choices are followed.
func Execute(sc *h.Scenario, choices []int32, replay bool, trace func(string)) *Hist {
	s := sc.Sched
	cfg := simrt.Config{Seed: sc.Seed, Strategy: s.Strategy, PTick: s.PTick, PPreempt: s.PPreempt, PCTDepth: s.PCTDepth,
		StarvePct: s.StarvePct, StarveMax: s.StarveMax, Choices: choices, Replay: replay, MaxSteps: s.MaxSteps,
		FairBudget: FairBudget, PostBudget: PostBudget, Trace: trace}
	if s.FairSteps > 0 {
		cfg.FairBudget = s.FairSteps
	}
	if cfg.MaxSteps == 0 {
		cfg.MaxSteps = DefaultMaxSteps
	}
	res := simrt.Run(cfg, func() { h.Run(sc) })
	return BuildHist(sc, res)
}
