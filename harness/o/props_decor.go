package o

import (
	"fmt"
	"math"
	"regexp"
	"strconv"
	"strings"
	"time"

	"verif/sim/simrt"

	"github.com/vbauerster/mpb/v8/zzverif/h"
)

func init() {
	register(&PropDef{ID: "C20", Gen: genC20, Judge: judgeC20, NonTrivial: func(hi *Hist) bool {
		return len(hi.Writes) >= 2 && len(hi.Added) >= 1
	}, Probes: []string{"c20_elapsed_checked", "c20_fold_samples", "c20_frozen_checked", "c20_fields_parsed"}})
}

// C20 (partial): the clock- and history-dependent half of the statement.

// genC20Steady: a transfer at a perfectly steady rate, shown by the library's own moving-average
// decorators with the default age: whatever the weighting, the average of equal samples is that sample.
func genC20Steady(r *Rand) *h.Scenario {
	sc := &h.Scenario{Prop: "C20", Mode: "steady"}
	c := &sc.Cont
	c.Refresh = h.RefManual
	c.QueueLen = -1
	c.Width = 400
	n := int64([]int{1, 2, 4, 5, 8, 1000, 1 << 20}[r.Intn(7)])
	per := int64([]int64{1e3, 5e5, 1e6, 25e6, 1e9}[r.Intn(5)]) // ns per item, an integer
	k := r.Range(3, 14)
	total := n*int64(k) + n*int64(r.Range(1, 40))
	bs := h.BarSpec{QueueAfter: -1, Filler: h.FillProbe, Total: total}
	for j, m := 0, r.Range(1, 3); j < m; j++ {
		d := h.DecSpec{Kind: []int{h.DecLibEwmaSpeed, h.DecLibEwmaETA}[r.Intn(2)], Style: r.Intn(4), Mark: true}
		if d.Kind == h.DecLibEwmaSpeed {
			d.Fmt = []string{"", "%.1f", "% .2f", "%d"}[r.Intn(4)]
			if d.Style%3 == 0 {
				d.Fmt = []string{"", "%.1f", "%f"}[r.Intn(3)]
			}
		}
		if r.Bool(0.3) {
			d.Wrap = []int{[]int{h.WrapMeta, h.WrapOnCompleteMeta}[r.Intn(2)]}
		}
		bs.App = append(bs.App, d)
	}
	sc.Bars = []h.BarSpec{bs}
	sc.Initial = []int{0}
	var ops []h.Op
	for j := 0; j < k; j++ {
		ops = append(ops, h.Op{K: []int{h.OpEwmaIncr, h.OpEwmaIncrBy}[r.Intn(2)], Bar: 0, N: n, D: n * per})
		if r.Bool(0.7) {
			ops = append(ops, h.Op{K: h.OpRefresh})
		}
	}
	ops = append(ops, h.Op{K: h.OpRefresh}, h.Op{K: h.OpAbort, Bar: 0}, h.Op{K: h.OpRefresh}, h.Op{K: h.OpRefresh})
	sc.Clients = [][]h.Op{ops}
	sc.Steady = []int64{n, per}
	p := DefaultProfile("C20")
	sc.Sched = genSched(r, &p)
	return sc
}

func genC20(r *Rand, tier string, i int) *h.Scenario {
	if r.Bool(0.08) {
		return genC20Steady(r)
	}
	sc := &h.Scenario{Prop: "C20"}
	c := &sc.Cont
	c.Refresh = r.Weighted(6, 3, 0)
	if c.Refresh == h.RefAuto {
		c.RateNS = []int64{1e8, 1e9, 6e10, 3600e9}[r.Intn(4)]
	}
	c.QueueLen = -1
	c.Width = 400
	nb := r.Range(1, 3)
	var ops []h.Op
	period := c.RateNS
	if period == 0 {
		period = 1e9
	}
	for b := 0; b < nb; b++ {
		bs := h.BarSpec{QueueAfter: -1, Filler: h.FillProbe}
		// totals up to 2^40 so that all size units occur; small ones for the ETA check
		if r.Bool(0.5) {
			bs.Total = int64(r.Range(2, 900))
		} else {
			bs.Total = int64(1) << uint(r.Range(4, 40))
			bs.Total += r.Int63n(bs.Total)
		}
		kinds := []int{h.DecElapsed, h.DecAvgSpeed, h.DecAvgETA, h.DecEwmaSpeed, h.DecEwmaETA, h.DecCounters, h.DecPercentage, h.DecTotal, h.DecCurrent, h.DecInvCurrent}
		for k, n := 0, r.Range(2, 5); k < n; k++ {
			d := h.DecSpec{Kind: kinds[r.Intn(len(kinds))], Style: r.Intn(4), Mark: true}
			switch d.Kind {
			case h.DecAvgSpeed, h.DecEwmaSpeed:
				if d.Style%3 == 0 {
					d.Fmt = []string{"", "%f", "%.2f", "%.0f", "%e", "%g"}[r.Intn(6)]
				} else {
					d.Fmt = []string{"", "%d", "% d", "%.1f", "% .2f", "%f", "%e", "%g", "%8d", "%-8d", "%08d", "%-08d", "%-010.1f", "%12.2f"}[r.Intn(14)]
				}
			case h.DecCounters:
				if d.Style%3 == 0 {
					d.Fmt = []string{"", "%d / %d", "%d of %d"}[r.Intn(3)]
				} else {
					d.Fmt = []string{"", "%d / %d", "% d / % d", "%.1f / %.1f", "% .2f / % .2f", "%f / %f", "%8d / %-8d", "%-08d / %08d", "%-09.1f / %9.1f"}[r.Intn(9)]
				}
			case h.DecTotal, h.DecCurrent, h.DecInvCurrent:
				if d.Style%3 == 0 {
					d.Fmt = []string{"", "%d", "%8d", "%-08d"}[r.Intn(4)]
				} else {
					// (the size types print through fmt.Formatter: width and the '-', '0' flags are part of "any flag")
					d.Fmt = []string{"", "%d", "% d", "%.1f", "% .2f", "%f", "%e", "%g", "%8d", "%-8d", "%08d", "%-08d", "%-010.1f", "%12.2f"}[r.Intn(14)]
				}
			case h.DecPercentage:
				d.Fmt = []string{"", "%d", "% d", "%.1f", "% .2f", "%f", "%e", "%g", "%6d", "%-06d", "%06d", "%-08.1f"}[r.Intn(12)]
			}
			if (d.Kind == h.DecElapsed || d.Kind == h.DecAvgSpeed || d.Kind == h.DecAvgETA) && r.Bool(0.25) {
				// a resumed task: the decorator is told that it started a while ago
				d.StartOff = []int64{1, 999, 1e6, 1e9, 59e9, 61e9, 3600e9, 7 * 3600e9}[r.Intn(8)]
			}
			if (d.Kind == h.DecEwmaSpeed || d.Kind == h.DecEwmaETA) && r.Bool(0.2) {
				d.TSafe = true
			}
			if d.Kind == h.DecEwmaETA && bs.Total <= 1000 && r.Bool(0.4) {
				d.Age = 1 // median window instead of the recording average
			}
			// wrappers must not hide samples
			if (d.Kind == h.DecEwmaSpeed || d.Kind == h.DecEwmaETA) && r.Bool(0.5) {
				for w, m := 0, r.Range(1, 3); w < m; w++ {
					d.Wrap = append(d.Wrap, []int{h.WrapMeta, h.WrapOnCompleteMeta, h.WrapOnAbortMeta, h.WrapOnCompleteMetaOrOnAbortMeta}[r.Intn(4)])
				}
				if r.Bool(0.3) {
					// a wrapper that replaces the text once the bar has finished: the printed value is
					// not read for this decorator, the samples it receives still are
					d.Wrap = append(d.Wrap, []int{h.WrapOnComplete, h.WrapOnAbort, h.WrapOnCompleteOrOnAbort}[r.Intn(3)])
					if r.Bool(0.5) {
						d.Wrap = append(d.Wrap, h.WrapMeta)
					}
					d.Mark = false
					d.Age = 0
				}
			}
			if r.Bool(0.5) {
				bs.Pre = append(bs.Pre, d)
			} else {
				bs.App = append(bs.App, d)
			}
		}
		sc.Bars = append(sc.Bars, bs)
		sc.Initial = append(sc.Initial, b)
	}
	// one client drives all bars with samples of every kind and long sleeps
	cur := make([]int64, nb)
	tots := make([]int64, nb)
	dyn := make([]bool, nb)
	for b := range tots {
		tots[b] = sc.Bars[b].Total
		if r.Bool(0.25) {
			// a stream of unknown size: the bar is created without a total and learns it later
			dyn[b] = true
			sc.Bars[b].Total = 0
			ops = append(ops, h.Op{K: h.OpSetTotal, Bar: b, N: tots[b]})
		}
	}
	var spent int64
	for k, n := 0, r.Range(4, 16); k < n; k++ {
		b := r.Intn(nb)
		tot := tots[b]
		room := tot - cur[b] - 1
		hasMedian := false
		for _, l := range [][]h.DecSpec{sc.Bars[b].Pre, sc.Bars[b].App} {
			for _, d := range l {
				hasMedian = hasMedian || d.Age == 1
			}
		}
		switch r.Weighted(6, 2, 3, 2, 2, 1) {
		case 5:
			// the total turns out to be different (never below what has been transferred)
			nt := cur[b] + 1 + r.Int63n(tot)
			if dyn[b] && (!hasMedian || nt <= 1000) {
				ops = append(ops, h.Op{K: h.OpSetTotal, Bar: b, N: nt})
				tots[b] = nt
			}
		case 4:
			// a transfer through the bar's proxy: stalled calls (no bytes, but time) and data calls
			if room > 4 && !hasMedian {
				sp := &h.StreamSpec{Writer: r.Bool(0.4), HasClose: r.Bool(0.5), DoClose: r.Bool(0.5), Seed: r.Next()}
				sp.Len = int(min64(room, int64(r.Range(1, 24))))
				for k, n := 0, r.Range(1, 4); k < n; k++ {
					sp.Chunks = append(sp.Chunks, []int{0, 0, 1, 3, 8}[r.Intn(5)])
				}
				if sp.Writer {
					sp.Chunks = nil // a short write ends the copy loop
					if r.Bool(0.3) {
						sp.Chunks = []int{100, 100, 0}
					}
				} else {
					sp.Chunks = append(sp.Chunks, r.Range(1, 9))
				}
				for k, n := 0, r.Range(1, 3); k < n; k++ {
					sp.Latency = append(sp.Latency, []int64{0, 1e3, period / 2, 2 * period}[r.Intn(4)])
				}
				sp.BufSizes = []int{r.Range(1, 16)}
				ops = append(ops, h.Op{K: h.OpProxy, Bar: b, Stream: sp})
				cur[b] += int64(sp.Len) // at most (a short write stops earlier; cur is only used as a bound)
			}
		case 0:
			nn := int64(0)
			switch r.Intn(5) {
			case 0:
				nn = 0
			case 1:
				nn = -int64(r.Range(0, 3))
			default:
				if room > 0 {
					nn = 1 + r.Int63n(min64(room, tot/3+1))
				}
			}
			if cur[b]+nn < 0 {
				nn = 0
			}
			d := []int64{0, 0, 1, 1e3, 1e6, 1e9, 37e9, 3600e9}[r.Intn(8)]
			ops = append(ops, h.Op{K: []int{h.OpEwmaIncr, h.OpEwmaIncrBy}[r.Intn(2)], Bar: b, N: nn, D: d})
			cur[b] += nn
		case 1:
			if room > 0 {
				v := cur[b] + r.Int63n(min64(room, tot/3+1))
				ops = append(ops, h.Op{K: h.OpEwmaSetCurrent, Bar: b, N: v, D: []int64{0, 1e6, 1e9}[r.Intn(3)]})
				cur[b] = v
			}
		case 2:
			d := []int64{period / 3, period, 3 * period, 7 * period}[r.Intn(4)]
			if spent+d < int64(50*time.Hour) {
				ops = append(ops, h.Op{K: h.OpSleep, D: d})
				spent += d
			}
		case 3:
			if room > 0 {
				nn := 1 + r.Int63n(min64(room, tot/3+1))
				ops = append(ops, h.Op{K: h.OpIncr, Bar: b, N: nn})
				cur[b] += nn
			}
		}
		if r.Bool(0.08) {
			// resume-able task: the start time of the average decorators is moved (not into the future)
			ops = append(ops, h.Op{K: h.OpAvgAdjust, Bar: b, N: r.Int63n(spent + 1)})
		}
		if c.Refresh == h.RefManual && r.Bool(0.4) {
			ops = append(ops, h.Op{K: h.OpRefresh})
		}
	}
	for b := 0; b < nb; b++ {
		if r.Bool(0.25) {
			ops = append(ops, h.Op{K: h.OpAbort, Bar: b})
		} else {
			// (a transfer through a proxy may have moved fewer bytes than planned: set, do not add)
			if dyn[b] && r.Bool(0.6) {
				// "that was all": the total becomes what has been transferred
				ops = append(ops, h.Op{K: h.OpSleep, D: 2 * period})
				if c.Refresh == h.RefManual {
					ops = append(ops, h.Op{K: h.OpRefresh})
				}
				ops = append(ops, h.Op{K: h.OpSetTotal, Bar: b, N: -1, Flag: true})
			} else if dyn[b] {
				ops = append(ops, h.Op{K: h.OpEwmaSetCurrent, Bar: b, N: tots[b], D: 1e6}, h.Op{K: h.OpEnableTrigger, Bar: b})
			} else {
				ops = append(ops, h.Op{K: h.OpEwmaSetCurrent, Bar: b, N: tots[b], D: 1e6})
			}
		}
		// keep rendering a little after completion: frozen texts
		ops = append(ops, h.Op{K: h.OpSleep, D: 2 * period})
		if c.Refresh == h.RefManual {
			ops = append(ops, h.Op{K: h.OpRefresh}, h.Op{K: h.OpRefresh})
		}
	}
	sc.Clients = [][]h.Op{ops}
	p := DefaultProfile("C20")
	sc.Sched = genSched(r, &p)
	return sc
}

// c20Sample is one (bytes, duration) pair handed to a bar's moving-average decorators.
type c20Sample struct {
	n, dur   int64
	slack    int64 // the proxies measure the duration themselves: a few clock reads more than the call took
	inv, ret int
}

// c20Samples lists the samples bar b's moving-average decorators must have received, in order,
// up to the operation that finished the bar.
func c20Samples(hi *Hist, b int) []c20Sample {
	var out []c20Sample
	m := NewRefBar(hi.Sc.Bars[b].Total)
	for _, op := range hi.Ops {
		if op.Op.Bar != b || op.Ret < 0 || m.Terminal() {
			continue
		}
		if op.Op.K == h.OpProxy {
			for i := op.Inv; i < op.Ret; i++ {
				e := &hi.Log[i]
				if e.Kind != h.EvStream {
					continue
				}
				rec := e.V.(h.StreamRec)
				if rec.Side != "stub" || (rec.Call != "Read" && rec.Call != "Write") || m.Terminal() {
					continue
				}
				out = append(out, c20Sample{rec.N, rec.Dur, 16, op.Inv, op.Ret})
				m.Apply(h.Op{K: h.OpIncr, N: rec.N})
			}
			continue
		}
		if !IsMutator(op.Op.K) {
			continue
		}
		switch op.Op.K {
		case h.OpEwmaIncr:
			out = append(out, c20Sample{op.Op.N, op.Op.D, 0, op.Inv, op.Ret})
		case h.OpEwmaIncrBy:
			out = append(out, c20Sample{int64(int(op.Op.N)), op.Op.D, 0, op.Inv, op.Ret})
		case h.OpEwmaIncrement:
			out = append(out, c20Sample{1, op.Op.D, 0, op.Inv, op.Ret})
		case h.OpEwmaSetCurrent:
			if op.Op.N >= 0 {
				out = append(out, c20Sample{op.Op.N - m.Current, op.Op.D, 0, op.Inv, op.Ret})
			}
		}
		m.Apply(op.Op)
	}
	return out
}

var markRe = regexp.MustCompile(`\{([pa])(\d+)\.(\d+)=([^}]*)\}`)

// timeText renders a duration in one of the four documented time styles.
func timeText(style int, d time.Duration) string {
	hh := int64(d/time.Hour) % 60
	mm := int64(d/time.Minute) % 60
	ss := int64(d/time.Second) % 60
	switch style % 4 {
	case 1:
		return fmt.Sprintf("%02d:%02d:%02d", hh, mm, ss)
	case 2:
		return fmt.Sprintf("%02d:%02d", hh, mm)
	case 3:
		if hh > 0 {
			return fmt.Sprintf("%02d:%02d:%02d", hh, mm, ss)
		}
		return fmt.Sprintf("%02d:%02d", mm, ss)
	}
	return d.Truncate(time.Second).String()
}

// readTimeText parses a duration printed in one of the four time styles back; gran is what the
// style cannot show (seconds, or a minute for HH:MM).
func readTimeText(style int, txt string) (d, gran time.Duration, ok bool) {
	txt = strings.TrimSpace(txt)
	num := func(s string) (int64, bool) {
		n, err := strconv.ParseInt(s, 10, 64)
		return n, err == nil && n >= 0
	}
	parts := strings.Split(txt, ":")
	switch style % 4 {
	case 0:
		v, err := time.ParseDuration(txt)
		return v, time.Second, err == nil
	case 1:
		if len(parts) != 3 {
			return 0, 0, false
		}
	case 2:
		if len(parts) != 2 {
			return 0, 0, false
		}
		hh, ok1 := num(parts[0])
		mm, ok2 := num(parts[1])
		return time.Duration(hh)*time.Hour + time.Duration(mm)*time.Minute, time.Minute, ok1 && ok2 && mm < 60
	case 3:
		if len(parts) == 2 {
			mm, ok1 := num(parts[0])
			ss, ok2 := num(parts[1])
			return time.Duration(mm)*time.Minute + time.Duration(ss)*time.Second, time.Second, ok1 && ok2 && ss < 60
		}
		if len(parts) != 3 {
			return 0, 0, false
		}
	}
	hh, ok1 := num(parts[0])
	mm, ok2 := num(parts[1])
	ss, ok3 := num(parts[2])
	return time.Duration(hh)*time.Hour + time.Duration(mm)*time.Minute + time.Duration(ss)*time.Second, time.Second, ok1 && ok2 && ok3 && mm < 60 && ss < 60
}

var sizeRe = regexp.MustCompile(`^(-?[0-9.]+(?:e[+-]?\d+)?) ?([KMGT]i?B|b)?(/s)?$`)

var unitMul = map[string]float64{"": 1, "b": 1, "KiB": 1 << 10, "MiB": 1 << 20, "GiB": 1 << 30, "TiB": 1 << 40, "KB": 1e3, "MB": 1e6, "GB": 1e9, "TB": 1e12}

// readSize parses "<number>[ ]<unit>[/s]" back into a value and reports the
// granularity (half a unit of the last printed digit).
func readSize(txt string) (val, gran float64, unit string, ok bool) {
	m := sizeRe.FindStringSubmatch(txt)
	if m == nil {
		return 0, 0, "", false
	}
	f, err := strconv.ParseFloat(m[1], 64)
	if err != nil {
		return 0, 0, "", false
	}
	mul := unitMul[m[2]]
	digits := 0
	mant := m[1]
	exp := 0.0
	if i := strings.IndexAny(mant, "e"); i >= 0 {
		e, _ := strconv.Atoi(mant[i+1:])
		exp = float64(e)
		mant = mant[:i]
	}
	if i := strings.Index(mant, "."); i >= 0 {
		digits = len(mant) - i - 1
	}
	gran = 0.5 * math.Pow(10, exp-float64(digits)) * mul
	return f * mul, gran, m[2], true
}

func judgeC20(hi *Hist) []*Violation {
	if hi.Res.Outcome != simrt.OK {
		return nil
	}
	var out []*Violation
	add := func(o, f string, a ...interface{}) {
		if len(out) == 0 {
			out = append(out, viol("C20", o, f, a...))
		}
	}
	frames := ParseFrames(hi)
	// creation times of the built-in decorators
	type dk struct{ bar, side, ord int }
	born := map[dk]int64{}
	for i := range hi.Log {
		if e := &hi.Log[i]; e.Kind == h.EvDecNew {
			born[dk{e.ID, int(e.A), int(e.B)}] = e.V.(int64)
		}
	}
	specOf := func(k dk) *h.DecSpec {
		if k.bar < 0 || k.bar >= len(hi.Sc.Bars) {
			return nil
		}
		l := hi.Sc.Bars[k.bar].Pre
		if k.side == 1 {
			l = hi.Sc.Bars[k.bar].App
		}
		if k.ord < 0 || k.ord >= len(l) {
			return nil
		}
		return &l[k.ord]
	}
	// per bar: the values the reference fold adds to a moving average, with the log position at which
	// the operation that carried the sample was accepted by the bar (its return)
	type addAt struct {
		v       float64
		inv, at int
	}
	foldOf := map[int][]addAt{}
	for b := range hi.Sc.Bars {
		if hi.Added[b] == nil {
			continue
		}
		var carry int64
		for _, sm := range c20Samples(hi, b) {
			if sm.n <= 0 {
				carry += sm.dur
			} else {
				foldOf[b] = append(foldOf[b], addAt{float64(carry+sm.dur) / float64(sm.n), sm.inv, sm.ret})
				carry = 0
			}
		}
	}
	spyAt := func(fi int, bar int) int {
		from := 0
		if fi > 0 {
			from = frames[fi-1].W.At
		}
		for i := frames[fi].W.At - 1; i > from; i-- {
			if e := &hi.Log[i]; e.Kind == h.EvSpy && e.ID == bar {
				return i
			}
		}
		return -1
	}
	// DecoratorAverageAdjust moves the start of the average decorators of a bar
	type adj struct {
		inv, ret int
		start    int64
	}
	adjusts := map[int][]adj{}
	for _, op := range hi.Ops {
		if op.Op.K == h.OpAvgAdjust {
			r := op.Ret
			if r < 0 {
				r = len(hi.Log)
			}
			adjusts[op.Op.Bar] = append(adjusts[op.Op.Bar], adj{op.Inv, r, op.Op.N})
		}
	}
	// a decorator whose average sits behind the library's mutex wrapper yields in the middle of the row: the
	// clock may move between the spy's call and the calls of the decorators after it, so "elapsed at the
	// spy's instant" is not what those decorators saw; the time-based values of such a bar are not read
	yields := map[int]bool{}
	for b := range hi.Sc.Bars {
		for _, l := range [][]h.DecSpec{hi.Sc.Bars[b].Pre, hi.Sc.Bars[b].App} {
			for _, d := range l {
				yields[b] = yields[b] || d.TSafe
			}
		}
	}
	frozen := map[dk]string{}
	for fi, f := range frames {
		for _, g := range f.Groups {
			if g.Main < 0 || len(f.Spy[g.Bar]) != 1 {
				continue
			}
			spy := f.Spy[g.Bar][0]
			row := stripSGR(f.Rows[g.Main].Text)
			for _, m := range markRe.FindAllStringSubmatch(row, -1) {
				k := dk{atoiDefault(m[2], -1), strings.Index("pa", m[1]), atoiDefault(m[3], -1)}
				txt := strings.TrimSpace(m[4])
				spec := specOf(k)
				if spec == nil || k.bar != g.Bar {
					continue
				}
				low := strings.ToLower(txt)
				if strings.Contains(low, "nan") || strings.Contains(low, "inf") {
					add("nan-inf", "frame %d: %s of bar %d prints %q (current %d total %d)", fi, decName(spec.Kind), g.Bar, txt, spy.Current, spy.Total)
				}
				if strings.Contains(txt, "%!") {
					continue // the scenario's format does not fit the unit: not the library's problem
				}
				t0, hasT0 := born[k]
				t0 -= spec.StartOff
				if yields[g.Bar] {
					hasT0 = false
				}
				if spec.StartOff > 0 {
					note("c20_given_start_checked")
				}
				if spec.Kind == h.DecAvgSpeed || spec.Kind == h.DecAvgETA {
					at := spyAt(fi, g.Bar)
					for _, a := range adjusts[g.Bar] {
						switch {
						case at < 0 || (a.inv < at && a.ret > at):
							hasT0 = false // adjustment in flight around this render
						case a.ret < at:
							t0 = a.start + 2
							note("c20_adjusted_start_checked")
						}
					}
				}
				elapsedLo := time.Duration(spy.T - t0 - 2)
				elapsedHi := time.Duration(spy.T - t0 + 24)
				done := spy.Completed || spy.Aborted
				switch spec.Kind {
				case h.DecElapsed:
					if !hasT0 {
						break
					}
					if done {
						if prev, ok := frozen[k]; ok && prev != txt {
							add("elapsed-not-frozen", "frame %d: elapsed time of finished bar %d changed from %q to %q", fi, g.Bar, prev, txt)
						}
						frozen[k] = txt
						note("c20_frozen_checked")
						break
					}
					note("c20_elapsed_checked")
					if txt != timeText(spec.Style, elapsedLo) && txt != timeText(spec.Style, elapsedHi) {
						add("elapsed", "frame %d: bar %d shows elapsed %q but %v..%v of simulated time have passed since the decorator was created (style %d)", fi, g.Bar, txt, elapsedLo, elapsedHi, spec.Style%4)
					}
				case h.DecAvgSpeed:
					if spy.Completed {
						if prev, ok := frozen[k]; ok && prev != txt {
							add("speed-not-frozen", "frame %d: average speed of completed bar %d changed from %q to %q", fi, g.Bar, prev, txt)
						}
						frozen[k] = txt
						break
					}
					if !hasT0 || elapsedLo <= 0 {
						break
					}
					if float64(spy.Current)/float64(elapsedLo)*1e9 >= 1<<62 {
						break // beyond what an int64 byte count per second can hold: outside the formatter's domain
					}
					val, gran, _, ok := readSize(txt)
					if !ok {
						add("speed-unreadable", "frame %d: average speed of bar %d prints %q", fi, g.Bar, txt)
						break
					}
					note("c20_speed_checked")
					want := float64(spy.Current) / float64(elapsedHi) * 1e9
					want2 := float64(spy.Current) / float64(elapsedLo) * 1e9
					tol := gran + math.Abs(want2-want) + 0.5 + 1e-9*math.Abs(want)
					if spec.Style%3 != 0 {
						tol += 0.5 // the value is rounded to whole bytes before it is scaled
					}
					if math.Abs(val-want) > tol && math.Abs(val-want2) > tol {
						add("speed-value", "frame %d: bar %d shows average speed %q (= %g) but current/elapsed is %g..%g (current %d, elapsed %v)", fi, g.Bar, txt, val, want, want2, spy.Current, elapsedLo)
					}
				case h.DecAvgETA:
					if hasT0 && !done && spy.Total > 1000 && spy.Current > 0 && spy.Current <= spy.Total && elapsedLo > 0 {
						// byte-sized totals: the library multiplies the remaining count by the rounded time per
						// item, so the printed value is within half a nanosecond per item of the true
						// proportion; judged only where that is below 1 % (>= 50 ns per item)
						perItem := float64(elapsedLo) / float64(spy.Current)
						want := float64(elapsedLo) * float64(spy.Total-spy.Current) / float64(spy.Current)
						if perItem >= 50 && want < float64(59*time.Hour) {
							got, gran, ok := readTimeText(spec.Style, txt)
							if !ok {
								add("eta-unreadable", "frame %d: bar %d shows average ETA %q (style %d)", fi, g.Bar, txt, spec.Style%4)
								break
							}
							note("c20_eta_large_checked")
							tol := 0.011*want + float64(gran) + float64(elapsedHi-elapsedLo)*float64(spy.Total-spy.Current)/float64(spy.Current) + 2e9
							if math.Abs(float64(got)-want) > tol {
								add("eta-value", "frame %d: bar %d shows average ETA %q (= %v) but elapsed x remaining / current is %v (current %d total %d elapsed %v)", fi, g.Bar, txt, got, time.Duration(want), spy.Current, spy.Total, elapsedLo)
							}
						}
						break
					}
					if !hasT0 || done || spy.Total > 1000 {
						break
					}
					note("c20_eta_checked")
					okETA := false
					for _, e := range []time.Duration{elapsedLo, elapsedHi, (elapsedLo + elapsedHi) / 2} {
						var rem time.Duration
						if spy.Current != 0 {
							rem = time.Duration((spy.Total - spy.Current) * int64(math.Round(float64(e)/float64(spy.Current))))
						}
						for _, delta := range []time.Duration{0, -time.Microsecond, time.Microsecond} {
							if txt == timeText(spec.Style, rem+delta) {
								okETA = true
							}
						}
					}
					if !okETA {
						add("eta-value", "frame %d: bar %d shows average ETA %q; (total-current) x round(elapsed/current) with current %d total %d elapsed %v does not print like that (style %d)", fi, g.Bar, txt, spy.Current, spy.Total, elapsedLo, spec.Style%4)
					}
				case h.DecEwmaETA:
					if spec.Age != 1 || spy.Total > 1000 || spy.Total < spy.Current {
						break
					}
					// median of the last three values added before this render (a zeroed window of three)
					at := spyAt(fi, g.Bar)
					if at < 0 {
						break
					}
					// an operation whose call returned before the render was accepted before it; one still in
					// flight (invoked, not yet returned) may or may not have been accepted yet
					okText, tried := false, []string{}
					for _, inflight := range []bool{false, true} {
						win := [3]float64{}
						for _, a := range foldOf[g.Bar] {
							if a.at < at || (inflight && a.inv < at) {
								win[0], win[1], win[2] = win[1], win[2], a.v
							}
						}
						x := win
						if x[0] > x[1] {
							x[0], x[1] = x[1], x[0]
						}
						if x[1] > x[2] {
							x[1], x[2] = x[2], x[1]
						}
						if x[0] > x[1] {
							x[0], x[1] = x[1], x[0]
						}
						rem := time.Duration((spy.Total - spy.Current) * int64(math.Round(x[1])))
						tried = append(tried, timeText(spec.Style, rem))
						if txt == timeText(spec.Style, rem) {
							okText = true
						}
					}
					note("c20_median_eta_checked")
					if !okText {
						add("median-eta", "frame %d: bar %d shows moving-average ETA %q; (total-current) x median of the last three samples prints %v (style %d)", fi, g.Bar, txt, tried, spec.Style%4)
					}
				case h.DecLibEwmaSpeed, h.DecLibEwmaETA:
					// steady scenarios only: every sample was (n items, n*per ns)
					if len(hi.Sc.Steady) != 2 || done || spy.Current <= 0 {
						break
					}
					n, per := hi.Sc.Steady[0], hi.Sc.Steady[1]
					_ = n
					if spec.Kind == h.DecLibEwmaSpeed {
						val, gran, _, ok := readSize(txt)
						if !ok {
							add("speed-unreadable", "frame %d: moving-average speed of bar %d prints %q", fi, g.Bar, txt)
							break
						}
						note("c20_steady_speed_checked")
						want := 1e9 / float64(per)
						if math.Abs(val-want) > gran+1.0+1e-6*want {
							add("steady-speed", "frame %d: bar %d shows moving-average speed %q (= %g/s) after %d equal samples of %d ns per item (= %g/s)", fi, g.Bar, txt, val, spy.Current/n, per, want)
						}
					} else {
						got, gran, ok := readTimeText(spec.Style, txt)
						if !ok {
							add("eta-unreadable", "frame %d: moving-average ETA of bar %d prints %q", fi, g.Bar, txt)
							break
						}
						note("c20_steady_eta_checked")
						want := time.Duration((spy.Total - spy.Current) * per)
						if want < 59*time.Hour && (got > want+gran || got < want-gran-time.Second) {
							add("steady-eta", "frame %d: bar %d shows moving-average ETA %q (= %v) after equal samples of %d ns per item with %d items left (= %v)", fi, g.Bar, txt, got, per, spy.Total-spy.Current, want)
						}
					}
				case h.DecPercentage:
					checkPercentage(fi, g.Bar, txt, spy, add)
				case h.DecCounters, h.DecTotal, h.DecCurrent, h.DecInvCurrent:
					checkSizes(fi, g.Bar, spec, txt, spy, add)
				}
			}
		}
	}
	// the estimators conserve time: the values added to the moving average equal the reference fold
	for b := range hi.Sc.Bars {
		if hi.Added[b] == nil {
			continue
		}
		samples := c20Samples(hi, b)
		var want, wantHi []float64
		var carry, carryHi int64
		for _, sm := range samples {
			if sm.n <= 0 {
				carry += sm.dur
				carryHi += sm.dur + sm.slack
				continue
			}
			q := float64(carry+sm.dur) / float64(sm.n)
			if math.IsInf(q, 0) || math.IsNaN(q) {
				carry += sm.dur
				carryHi += sm.dur + sm.slack
				continue
			}
			want = append(want, q)
			wantHi = append(wantHi, float64(carryHi+sm.dur+sm.slack)/float64(sm.n))
			carry, carryHi = 0, 0
		}
		for side, list := range [][]h.DecSpec{hi.Sc.Bars[b].Pre, hi.Sc.Bars[b].App} {
			for ord, d := range list {
				if d.Kind != h.DecEwmaSpeed && d.Kind != h.DecEwmaETA {
					continue
				}
				if d.Kind == h.DecEwmaETA && d.Age == 1 {
					continue // the library's own median window: checked through the printed ETA
				}
				var got []float64
				for i := range hi.Log {
					if e := &hi.Log[i]; e.Kind == h.EvAvgAdd && e.ID == b && int(e.A) == side && int(e.B) == ord {
						got = append(got, e.V.(float64))
					}
				}
				note("c20_fold_decorators")
				OracleProbes["c20_fold_samples"] += int64(len(samples))
				if len(got) != len(want) {
					add("fold-count", "bar %d: moving-average decorator %d/%d (wrappers %v) added %d values to its average, the samples %v call for %d", b, side, ord, d.Wrap, len(got), samples, len(want))
					continue
				}
				for i := range got {
					if got[i] < want[i] || got[i] > wantHi[i] {
						add("fold-value", "bar %d: moving-average decorator %d/%d: value %d added to the average is %g, the reference fold over %v gives %g", b, side, ord, i, got[i], samples, want[i])
						break
					}
				}
			}
		}
	}
	return out
}

func decName(k int) string {
	return map[int]string{h.DecElapsed: "Elapsed", h.DecAvgSpeed: "AverageSpeed", h.DecAvgETA: "AverageETA", h.DecEwmaSpeed: "MovingAverageSpeed", h.DecEwmaETA: "MovingAverageETA",
		h.DecCounters: "Counters", h.DecPercentage: "Percentage", h.DecTotal: "Total", h.DecCurrent: "Current", h.DecInvCurrent: "InvertedCurrent"}[k]
}

// checkSizes parses size / counter texts back and compares with the spy's statistics.
// checkPercentage: the printed percentage reads back to 100*current/total within the printed precision.
func checkPercentage(fi, bar int, txt string, spy h.SpyRec, add func(o, f string, a ...interface{})) {
	if spy.Total <= 0 || spy.Current < 0 || spy.Current > spy.Total {
		return
	}
	num := strings.TrimSpace(strings.TrimSuffix(strings.TrimSpace(txt), "%"))
	val, gran, _, ok := readSize(num)
	if !ok || !strings.HasSuffix(txt, "%") {
		add("percentage-unreadable", "frame %d: percentage of bar %d prints %q", fi, bar, txt)
		return
	}
	note("c20_percentage_checked")
	want := 100 * float64(spy.Current) / float64(spy.Total)
	if gran < 0.5 && strings.IndexAny(num, ".e") < 0 {
		gran = 1 // integer verbs truncate
	}
	if math.Abs(val-want) > gran+1e-9*want+1e-12 && !(strings.IndexAny(num, ".e") < 0 && val <= want && want-val < 1) {
		add("percentage-value", "frame %d: bar %d shows %q for %d of %d (= %.6f%%)", fi, bar, txt, spy.Current, spy.Total, want)
	}
}

func checkSizes(fi, bar int, spec *h.DecSpec, txt string, spy h.SpyRec, add func(o, f string, a ...interface{})) {
	var parts []string
	var wants []int64
	switch spec.Kind {
	case h.DecCounters:
		sep := " / "
		if strings.Contains(spec.Fmt, " of ") {
			sep = " of "
		}
		parts = strings.Split(txt, sep)
		wants = []int64{spy.Current, spy.Total}
		if len(parts) != 2 {
			add("counters-unreadable", "frame %d: counters of bar %d print %q", fi, bar, txt)
			return
		}
	case h.DecTotal:
		parts, wants = []string{txt}, []int64{spy.Total}
	case h.DecCurrent:
		parts, wants = []string{txt}, []int64{spy.Current}
	case h.DecInvCurrent:
		if spy.Current > spy.Total {
			return // a stream of unknown size that has overtaken its guessed total: nothing is "left"
		}
		parts, wants = []string{txt}, []int64{spy.Total - spy.Current}
	}
	for i, p := range parts {
		if wants[i] < 0 {
			continue
		}
		val, gran, unit, ok := readSize(strings.TrimSpace(p))
		if !ok {
			add("size-unreadable", "frame %d: %s of bar %d prints %q", fi, decName(spec.Kind), bar, p)
			return
		}
		want := float64(wants[i])
		note("c20_sizes_checked")
		if math.Abs(val-want) > gran+1e-9*want+1e-9 {
			add("size-value", "frame %d: %s of bar %d prints %q (= %g) for the value %d", fi, decName(spec.Kind), bar, p, val, wants[i])
			return
		}
		if spec.Style%3 != 0 {
			// largest unit that fits
			mul := unitMul[unit]
			base := 1024.0
			if spec.Style%3 == 2 {
				base = 1000
			}
			if want >= mul*base && unit != "TiB" && unit != "TB" {
				add("size-unit", "frame %d: %s of bar %d prints %q for %d: a larger unit fits", fi, decName(spec.Kind), bar, p, wants[i])
			}
			if want < mul && mul > 1 {
				add("size-unit", "frame %d: %s of bar %d prints %q for %d: the unit is too large", fi, decName(spec.Kind), bar, p, wants[i])
			}
		}
	}
}
