package o

import (
	"fmt"
	"sort"
	"strings"

	"verif/sim/simrt"

	"github.com/vbauerster/mpb/v8/zzverif/h"
)

func init() {
	register(&PropDef{ID: "C05", Gen: genC05, Judge: judgeC05, NonTrivial: func(hi *Hist) bool {
		return len(hi.Added) >= 2 && len(hi.Writes) >= 2
	}, Probes: []string{"bar_left_legally", "notifier_checked"}})
	register(&PropDef{ID: "C03", Gen: genC03, Judge: judgeC03, NonTrivial: func(hi *Hist) bool {
		return len(hi.Added) >= 1 && len(hi.Writes) >= 1 && hi.WaitOut >= 0
	}, Probes: []string{"last_frame_checked"}})
	register(&PropDef{ID: "C13", Gen: genC13, Judge: judgeC13, NonTrivial: func(hi *Hist) bool {
		n := 0
		for _, op := range hi.Ops {
			if op.Op.K == h.OpWrite {
				n++
			}
		}
		return n >= 2 && len(hi.Writes) >= 1
	}, Probes: []string{"user_lines_checked"}})
}

// AutoMode reports whether the container refreshes by itself (requested, or
// implied by a terminal output without manual refresh).
func AutoMode(sc *h.Scenario) bool {
	return sc.Cont.Refresh == h.RefAuto || (sc.Cont.Refresh == h.RefNone && sc.Cont.Terminal)
}

func isTerminalFlags(f string) bool { return f == "C" || f == "A" || f == "CA" }

// poppable reports whether a bar is popped out in pop-completed mode.
func poppable(hi *Hist, bf *BarFacts) bool {
	return hi.Sc.Cont.Pop && !bf.Spec.NoPop && len(bf.Succ) == 0
}

// removable reports whether the finished bar is set to be removed from the container.
func removable(hi *Hist, bf *BarFacts) bool {
	if len(bf.Succ) > 0 {
		return true
	}
	if hi.Sc.Cont.Pop && !bf.Spec.NoPop {
		return true
	}
	if bf.Sequential {
		if bf.Model.Aborted {
			return bf.Model.Drop
		}
		return bf.Spec.RmOnComp
	}
	// concurrent mutators: any Abort(drop) may have been the effective one
	for _, op := range hi.Ops {
		if op.Op.K == h.OpAbort && op.Op.Bar == bf.Idx && op.Op.Flag {
			return true
		}
	}
	return bf.Spec.RmOnComp
}

// mayBeRemovable is the permissive variant used when the bar's end is not
// determined by its owner's program (cancellation).
func mayBeRemovable(hi *Hist, bf *BarFacts) bool {
	if removable(hi, bf) || bf.Spec.RmOnComp {
		return true
	}
	for _, op := range hi.Ops {
		if op.Op.K == h.OpAbort && op.Op.Bar == bf.Idx && op.Op.Flag {
			return true
		}
	}
	return false
}

// cycleFirstEvent returns the log index of the first event of the render
// cycle that produced frame k: the terminal-size query that opens the cycle
// on a terminal (the last one before the write: earlier cycles may have drawn
// nothing and written nothing), else the first probe event after the previous
// write, else the write itself.
func cycleFirstEvent(hi *Hist, frames []*Frame, k int) int {
	from := 0
	if k > 0 {
		from = frames[k-1].W.At + 1
	}
	for i := frames[k].W.At - 1; i >= from; i-- {
		if hi.Log[i].Kind == h.EvTermSize {
			return i
		}
	}
	for i := from; i < frames[k].W.At; i++ {
		switch hi.Log[i].Kind {
		case h.EvSpy, h.EvFill, h.EvDecor:
			return i
		}
	}
	return frames[k].W.At
}

// ---------------------------------------------------------------------------
// C05

func genC05(r *Rand, tier string, i int) *h.Scenario {
	p := DefaultProfile("C05")
	p.MinBars, p.MaxBars = 2, 6
	p.PDelay = 0
	p.PTerminal = 0.3
	p.PTightTerm = 0.3 // bars without a line of their own stay in the container all the same
	p.PRm, p.PPop, p.PAbortFinish = 0.35, 0.3, 0.35
	p.PNotifier = 0.6
	p.PQueueAfter = 0.1
	p.PClientAdd = 0.6
	if tier == "thorough" {
		p.MaxBars, p.MaxOps = 8, 20
	}
	sc := GenBase(r, &p)
	// bars added while the container is being cancelled are part of it too (or Add fails)
	if r.Bool(0.15) {
		op := h.Op{K: []int{h.OpCancel, h.OpShutdown}[r.Intn(2)]}
		who := r.Intn(len(sc.Clients) + 1)
		if who == len(sc.Clients) {
			pos := r.Intn(len(sc.Main) + 1)
			sc.Main = append(sc.Main[:pos:pos], append([]h.Op{op}, sc.Main[pos:]...)...)
		} else {
			ops := sc.Clients[who]
			pos := r.Intn(len(ops) + 1)
			sc.Clients[who] = append(ops[:pos:pos], append([]h.Op{op}, ops[pos:]...)...)
		}
		if sc.Cont.Notifier == 0 {
			sc.Cont.Notifier = 1
		}
	} else if r.Bool(0.1) {
		// the output dies: the container shuts down, and still knows its bars
		sc.Faults = []h.Fault{{Site: []int{h.FaultOutWrite, h.FaultOutShort}[r.Intn(2)], K: r.Range(1, 6), Err: []int{0, 0, 1, 2, 3, 4, 5, 6}[r.Intn(8)]}}
		if sc.Cont.Notifier == 0 {
			sc.Cont.Notifier = 1
		}
	}
	return sc
}

func judgeC05(hi *Hist) []*Violation {
	// a failing output write ends the container after the cycle has handed its bars back: the
	// notifier's list is still judged (not the frames); a failing filler or extender loses the cycle's bars
	outFault := faulted(hi)
	for _, f := range hi.Sc.Faults {
		if f.Site != h.FaultOutWrite && f.Site != h.FaultOutShort {
			outFault = false
		}
	}
	if hi.Res.Outcome == simrt.Panic || (faulted(hi) && !outFault) {
		return nil
	}
	// the frames written before a hang or deadlock are judged like any others; only the rules
	// that need the end of the run (the notifier) are skipped then
	partial := hi.Res.Outcome != simrt.OK
	frames := ParseFrames(hi)
	if outFault {
		frames = nil
		note("c05_notifier_after_write_error")
	}
	// a terminal with fewer lines than rows clips bars out of the frames (C04 demands that): what
	// the frames show says nothing about the container then, the notifier's list still does
	for _, f := range frames {
		if len(f.Spy) > len(f.Groups) {
			frames = nil
			note("c05_clipped_run")
			break
		}
	}
	facts := Facts(hi)
	var out []*Violation
	add := func(o, f string, a ...interface{}) {
		if len(out) == 0 {
			out = append(out, viol("C05", o, f, a...))
		}
	}
	presence := make([][]int, len(facts))
	for k, f := range frames {
		seen := map[int]int{}
		for _, g := range f.Groups {
			seen[g.Bar]++
			if seen[g.Bar] == 2 {
				add("bar-twice", "bar %d has two row groups in frame %d: %s", g.Bar, k, f)
			}
			if g.Bar < 0 || g.Bar >= len(facts) || !facts[g.Bar].Added && hi.Added[g.Bar] == nil {
				add("unknown-bar", "frame %d shows bar %d which was never added: %s", k, g.Bar, f)
				continue
			}
			if seen[g.Bar] == 1 {
				presence[g.Bar] = append(presence[g.Bar], k)
			}
		}
		for _, r := range f.Rows {
			if r.Kind == '?' && hi.Sc.Cont.Width >= 100 && !hi.Sc.Cont.Terminal {
				add("unattributed-row", "frame %d contains a row that belongs to no bar: %q", k, r.Text)
			}
		}
	}
	stopAt := len(hi.Log)
	if hi.WaitOut >= 0 {
		stopAt = hi.WaitOut
	}
	isCancelled := cancelled(hi)
	for _, bf := range facts {
		if !bf.Added {
			continue
		}
		pr := presence[bf.Idx]
		// (3) contiguity
		for j := 1; j < len(pr); j++ {
			if pr[j] != pr[j-1]+1 {
				add("gone-and-back", "bar %d is in frame %d, missing from frame %d and back in frame %d", bf.Idx, pr[j-1], pr[j-1]+1, pr[j])
			}
		}
		// (2) must appear
		if !bf.Queued {
			for k := range frames {
				if bf.AddRet < cycleFirstEvent(hi, frames, k) {
					if len(pr) == 0 || pr[0] > k {
						first := -1
						if len(pr) > 0 {
							first = pr[0]
						}
						add("missing-bar", "bar %d was added (Add returned at log %d) before the render cycle of frame %d began (log %d) but first appears in frame %d\n%s",
							bf.Idx, bf.AddRet, k, cycleFirstEvent(hi, frames, k), first, frames[k])
					}
					break
				}
			}
		}
		// a bar queued behind another is no longer "waiting behind" it once that bar has left: it is
		// due in the frame after the predecessor's last one
		if bf.Queued && !isCancelled {
			// (with a cancellation the predecessor may be finished by it before the successor is
			// created: that history is the open finding F4b and belongs to C17)
			ppr := presence[bf.Pred]
			if len(ppr) > 0 && ppr[len(ppr)-1] < len(frames)-1 {
				L := ppr[len(ppr)-1]
				if bf.AddRet < cycleFirstEvent(hi, frames, L) && (len(pr) == 0 || pr[0] > L+1) {
					add("successor-missing", "bar %d left after frame %d and bar %d was queued behind it before that frame was drawn, but frame %d does not show it: %s", bf.Pred, L, bf.Idx, L+1, frames[L+1])
				}
			}
		}
		// (4) leaving
		if len(pr) > 0 && pr[len(pr)-1] < len(frames)-1 {
			L := pr[len(pr)-1]
			g := frames[L].GroupOf(bf.Idx)
			term := g != nil && isTerminalFlags(g.Flags)
			if g != nil && g.Main < 0 {
				term = true // marker not visible (narrow output): cannot tell
			}
			if !term {
				add("vanished-running", "bar %d left after frame %d although it was still running there: %s", bf.Idx, L, frames[L])
			} else if !removable(hi, bf) && !(isCancelled && mayBeRemovable(hi, bf)) {
				add("vanished", "bar %d left after frame %d although it is not set to be removed, popped or replaced: %s", bf.Idx, L, frames[L])
			} else {
				_ = stopAt
				note("bar_left_legally")
			}
		}
	}
	// (5) shutdown notifier
	for i := range hi.Log {
		e := &hi.Log[i]
		if e.Kind != h.EvNotified || partial {
			continue
		}
		if e.A == 2 {
			add("notifier-twice", "a second value arrived on the shutdown notifier: %v", e.V)
			break
		}
		note("notifier_checked")
		got := e.V.([]int)
		seen := map[int]bool{}
		for _, b := range got {
			if b < 0 {
				add("notifier-unknown", "the shutdown notifier lists a bar that was never returned by Add (or a value that is not []*Bar): %v", got)
			}
			if seen[b] {
				add("notifier-dup", "the shutdown notifier lists bar %d twice: %v", b, got)
			}
			seen[b] = true
		}
		lower, upper := map[int]bool{}, map[int]bool{}
		if AutoMode(hi.Sc) && !isCancelled && len(frames) > 0 {
			last := frames[len(frames)-1]
			for _, g := range last.Groups {
				if g.Bar >= 0 && g.Bar < len(facts) && !poppable(hi, facts[g.Bar]) {
					lower[g.Bar], upper[g.Bar] = true, true
				}
			}
			// bars added after the last frame's cycle began (racing with shutdown)
			for _, bf := range facts {
				if bf.Added && bf.AddRet >= cycleFirstEvent(hi, frames, len(frames)-1) {
					upper[bf.Idx] = true
				}
			}
		} else {
			for _, bf := range facts {
				if !bf.Added {
					continue
				}
				upper[bf.Idx] = true
				if !bf.Queued && !mayBeRemovable(hi, bf) && !poppable(hi, bf) && (hi.WaitOut < 0 || bf.AddRet < hi.WaitOut) {
					lower[bf.Idx] = true
				}
			}
		}
		for b := range lower {
			if !seen[b] {
				add("notifier-missing", "the shutdown notifier %v does not list bar %d which is still in the container", got, b)
			}
		}
		for b := range seen {
			if b >= 0 && !upper[b] {
				add("notifier-extra", "the shutdown notifier %v lists bar %d which is no longer in the container", got, b)
			}
		}
		break
	}
	return out
}

// ---------------------------------------------------------------------------
// C03

func genC03(r *Rand, tier string, i int) *h.Scenario {
	p := DefaultProfile("C03")
	p.RefreshW = [3]int{8, 1, 1}
	p.PDelay = 0
	p.PTerminal = 0.35
	p.PTightTerm = 0.3 // fewer lines than rows: clipped bars come into view when others leave
	p.PWrap = 0.6
	p.PQueueAfter = 0.1 // successors created before their predecessor finishes
	p.PLate = 0.3
	p.PJoin = 0.05
	if tier == "thorough" {
		p.MaxBars, p.MaxOps = 8, 20
	}
	sc := GenBase(r, &p)
	// someone else ends the container while main is in Wait, or waits as well: no Wait returns
	// before the output is complete
	if len(sc.Clients) > 0 && !sc.Cont.UserWG {
		switch who := r.Intn(len(sc.Clients)); r.Weighted(17, 1, 1, 1) {
		case 1:
			sc.Clients[who] = append(sc.Clients[who], h.Op{K: h.OpShutdown})
		case 2:
			sc.Clients[who] = append(sc.Clients[who], h.Op{K: h.OpWait})
		case 3:
			sc.Clients = append(sc.Clients, []h.Op{{K: h.OpSleep, D: genSleep(r, &sc.Cont)}, {K: h.OpWait}})
		}
	}
	// the library's own counters are findable in the last frame
	for b := range sc.Bars {
		for _, l := range [][]h.DecSpec{sc.Bars[b].Pre, sc.Bars[b].App} {
			for k := range l {
				switch l[k].Kind {
				case h.DecCounters, h.DecPercentage, h.DecTotal, h.DecCurrent:
					l[k].Mark, l[k].Wrap = true, nil
				}
			}
		}
	}
	return sc
}

func flagsOf(completed, aborted bool) string {
	switch {
	case completed && aborted:
		return "CA"
	case completed:
		return "C"
	case aborted:
		return "A"
	}
	return "R"
}

func judgeC03(hi *Hist) []*Violation {
	if hi.Res.Outcome != simrt.OK || hi.WaitOut < 0 {
		return nil
	}
	var out []*Violation
	add := func(o, f string, a ...interface{}) {
		if len(out) == 0 {
			out = append(out, viol("C03", o, f, a...))
		}
	}
	// no byte after Wait has returned (every mode), whoever called it
	for _, w := range hi.Writes {
		if w.At > hi.WaitOut {
			add("write-after-wait", "the output received %d bytes after Wait had returned: %q", len(w.Payload), clip(string(w.Payload), 120))
		}
		for _, op := range hi.Ops {
			if op.Op.K == h.OpWait && op.Ret >= 0 && w.At > op.Ret {
				note("c03_second_waiter_checked")
				add("write-after-wait", "the output received %d bytes after a client's Wait had returned: %q", len(w.Payload), clip(string(w.Payload), 120))
			}
		}
	}
	if !AutoMode(hi.Sc) || hi.Sc.Cont.Delay {
		return out
	}
	frames := ParseFrames(hi)
	facts := Facts(hi)
	isCancelled := cancelled(hi)
	relaxed := isCancelled || faulted(hi)
	if len(frames) == 0 {
		if hi.Sc.Cont.Terminal && hi.Sc.Cont.TermH < 2 {
			return out // a one-line terminal has no room for a row above the cursor's line
		}
		for _, bf := range facts {
			if bf.Added && !relaxed && !removable(hi, bf) {
				add("no-final-frame", "bar %d finished and stays in the container but no frame was ever written", bf.Idx)
			}
		}
		return out
	}
	last := frames[len(frames)-1]
	note("last_frame_checked")
	seen := map[int]int{}
	for _, g := range last.Groups {
		seen[g.Bar]++
		if seen[g.Bar] > 1 {
			add("bar-twice", "bar %d appears twice in the last frame: %s", g.Bar, last)
		}
		if g.Bar < 0 || g.Bar >= len(facts) || facts[g.Bar].Final == nil || g.Main < 0 {
			continue
		}
		if isCancelled {
			// a bar ended by a cancellation may have been drawn for the last time before it noticed
			// (the statement quantifies over programs that finish their bars; C14 has the cancelled ones)
			continue
		}
		fin := facts[g.Bar].Final
		// what the program did decides how the bar ended (the calls on this bar did not overlap): a bar
		// that was aborted shows as aborted, whatever was done to it afterwards
		if bf := facts[g.Bar]; bf.Sequential && bf.Model.Terminal() && !relaxed {
			if wantM := flagsOf(bf.Model.Completed, bf.Model.Aborted); g.Flags != wantM {
				note("c03_final_state_model_checked")
				add("final-state-model", "last frame shows bar %d as %s (%d/%d) but by the calls made on it the bar ended as %s", g.Bar, g.Flags, g.Cur, g.Tot, wantM)
			}
		}
		want := flagsOf(fin.Completed, fin.Aborted)
		if g.Flags != want {
			add("final-state", "last frame shows bar %d as %s (%d/%d) but after Wait Completed()=%v Aborted()=%v", g.Bar, g.Flags, g.Cur, g.Tot, fin.Completed, fin.Aborted)
		}
		if g.Cur != fin.Current {
			add("final-current", "last frame shows bar %d at %d/%d but Current() after Wait is %d", g.Bar, g.Cur, g.Tot, fin.Current)
		}
		if fin.Completed && !fin.Aborted && g.Cur != g.Tot {
			add("final-not-full", "completed bar %d is shown at %d/%d in the last frame", g.Bar, g.Cur, g.Tot)
		}
		// on-complete / on-abort decorations of the probe decorators
		row := last.Rows[g.Main].Text
		checkDecorations(hi, facts[g.Bar], row, fin.Completed && !fin.Aborted, fin.Aborted && !fin.Completed, add)
	}
	if isCancelled && !faulted(hi) && hi.InjectAt < 0 && len(last.Spy) <= len(last.Groups) {
		// a bar that had finished by its own operations before the container was cancelled, and is set
		// to be removed, is retired by the render passes the container makes while it shuts down
		cancelInv := len(hi.Log)
		for _, op := range hi.Ops {
			if (op.Op.K == h.OpCancel || op.Op.K == h.OpShutdown) && op.Inv < cancelInv {
				cancelInv = op.Inv
			}
		}
		for _, bf := range facts {
			if !bf.Added || bf.Final == nil || bf.Queued || poppable(hi, bf) || !bf.Sequential || len(bf.Succ) > 0 {
				continue
			}
			// (retiring takes two finished renders: one must have happened before the cancellation,
			// the first shutdown pass is the second, and a further pass follows because the heap changed)
			drawnFinished := false
			for i := 0; i < cancelInv && i < len(hi.Log); i++ {
				if e := &hi.Log[i]; e.Kind == h.EvSpy && e.ID == bf.Idx {
					if rec := e.V.(h.SpyRec); rec.Completed || rec.Aborted {
						drawnFinished = true
					}
				}
			}
			if drawnFinished && bf.TermAt >= 0 && bf.TermAt < cancelInv && removable(hi, bf) && seen[bf.Idx] > 0 {
				note("c03_removed_before_cancel_checked")
				add("removed-bar-present", "bar %d finished before the container was cancelled and is set to be removed but is still in the last frame: %s", bf.Idx, last)
			}
		}
	}
	if relaxed {
		return out
	}
	// a last frame clipped by the terminal height cannot show every bar
	if len(last.Spy) > len(last.Groups) {
		note("c03_last_frame_clipped")
		return out
	}
	for _, bf := range facts {
		if !bf.Added || bf.Final == nil {
			continue
		}
		if bf.AddRet > last.W.At {
			continue // added after the last frame's cycle: cannot be in it
		}
		if bf.Queued && seen[bf.Idx] == 0 {
			continue // C17's business
		}
		switch {
		case poppable(hi, bf):
			// may or may not be in the last frame (C18 tracks pops)
		case !bf.Sequential && len(bf.Succ) == 0:
			// overlapping mutators: which Abort (drop or not) took effect is not determined
		case removable(hi, bf):
			if seen[bf.Idx] > 0 {
				add("removed-bar-present", "bar %d is set to be removed but is still in the last frame: %s", bf.Idx, last)
			}
		default:
			if seen[bf.Idx] == 0 {
				add("bar-missing", "bar %d finished (completed=%v aborted=%v) and is still part of the container but the last frame does not show it: %s",
					bf.Idx, bf.Final.Completed, bf.Final.Aborted, last)
			}
		}
	}
	return out
}

// checkDecorations verifies that wrapped probe decorators show their
// on-complete / on-abort message in the row of a finished bar.
func checkDecorations(hi *Hist, bf *BarFacts, row string, completed, aborted bool, add func(o, f string, a ...interface{})) {
	if hi.Sc.Cont.Width > 0 && hi.Sc.Cont.Width < 150 {
		return // decorators may be cut
	}
	if hi.Sc.Cont.Terminal && hi.Sc.Cont.TermW < 150 {
		return
	}
	// (BarWidth only bounds the filler: decorators and the filler's replacement message are cut by the row's width)
	// the filler's on-complete / on-abort replacement (the on-abort middleware is applied last, so it is the outer one)
	if aborted && bf.Spec.FillOnAbort && !strings.Contains(row, h.FillMsg(bf.Idx, 1)) {
		add("filler-on-abort-missing", "bar %d was aborted but its row does not show the on-abort filler message %q: %q", bf.Idx, h.FillMsg(bf.Idx, 1), row)
	}
	if completed && bf.Spec.FillOnComplete && !strings.Contains(row, h.FillMsg(bf.Idx, 0)) {
		add("filler-on-complete-missing", "bar %d completed but its row does not show the on-complete filler message %q: %q", bf.Idx, h.FillMsg(bf.Idx, 0), row)
	}
	if !completed && strings.Contains(row, h.FillMsg(bf.Idx, 0)) {
		add("filler-on-complete-wrong", "bar %d did not complete but its row shows the on-complete filler message: %q", bf.Idx, row)
	}
	if !aborted && strings.Contains(row, h.FillMsg(bf.Idx, 1)) {
		add("filler-on-abort-wrong", "bar %d was not aborted but its row shows the on-abort filler message: %q", bf.Idx, row)
	}
	// the library's own counters / percentage show the final numbers (the spy's, in the same row)
	if g := spyRe.FindStringSubmatch(row); g != nil {
		spy := h.SpyRec{Current: int64(atoiDefault(g[2], -1)), Total: int64(atoiDefault(g[3], -1))}
		for _, m := range markRe.FindAllStringSubmatch(stripSGR(row), -1) {
			bar, side, ord := atoiDefault(m[2], -1), strings.Index("pa", m[1]), atoiDefault(m[3], -1)
			if bar != bf.Idx || side < 0 {
				continue
			}
			l := bf.Spec.Pre
			if side == 1 {
				l = bf.Spec.App
			}
			txt := strings.TrimSpace(m[4])
			if ord < 0 || ord >= len(l) || strings.Contains(txt, "%!") || spy.Current < 0 || spy.Total < spy.Current {
				continue
			}
			note("c03_final_counters_checked")
			fadd := func(o, f string, a ...interface{}) { add("final-"+o, "last frame, "+f, a...) }
			switch l[ord].Kind {
			case h.DecPercentage:
				checkPercentage(-1, bar, txt, spy, fadd)
			case h.DecCounters, h.DecTotal, h.DecCurrent:
				checkSizes(-1, bar, &l[ord], txt, spy, fadd)
			}
		}
	}
	for side, list := range [][]h.DecSpec{bf.Spec.Pre, bf.Spec.App} {
		for ord, d := range list {
			if d.Kind != h.DecProbe {
				continue
			}
			// the outermost wrapper that fires decides the text
			msg := ""
			for k := len(d.Wrap) - 1; k >= 0; k-- {
				w := d.Wrap[k]
				if (w == h.WrapOnComplete && completed) || (w == h.WrapOnAbort && aborted) || (w == h.WrapOnCompleteOrOnAbort && (completed || aborted)) {
					msg = h.WrapMsg(w, bf.Idx, side, ord)
					break
				}
			}
			if msg == "" {
				continue
			}
			if !strings.Contains(row, msg) {
				add("decoration-missing", "bar %d finished (completed=%v aborted=%v) but decorator %d/%d does not show its message %q in the last frame: %q", bf.Idx, completed, aborted, side, ord, msg, row)
			}
		}
	}
}

func clip(s string, n int) string {
	if len(s) > n {
		return s[:n] + "..."
	}
	return s
}

// ---------------------------------------------------------------------------
// C13

// genC13Repeat: a quiet container (idle bars, or none) and one client that writes the very same
// line again and again, about once per render cycle - consecutive frames are byte-identical.
func genC13Repeat(r *Rand) *h.Scenario {
	sc := &h.Scenario{Prop: "C13"}
	c := &sc.Cont
	c.Refresh = r.Weighted(6, 4, 0)
	if c.Refresh == h.RefAuto {
		c.RateNS = refreshRates[r.Intn(4)]
	}
	c.QueueLen = -1
	if r.Bool(0.4) {
		c.Terminal, c.TermW, c.TermH = true, 120, r.Range(8, 30)
	} else {
		c.Width = 120
	}
	nb := r.Range(0, 2)
	for b := 0; b < nb; b++ {
		sc.Bars = append(sc.Bars, h.BarSpec{Total: int64(r.Range(2, 9)), QueueAfter: -1, Filler: r.Weighted(2, 0, 0, 2)})
		sc.Initial = append(sc.Initial, b)
	}
	period := c.RateNS
	line := UserLine(0, 777, "retrying connection...")
	var ops []h.Op
	for k, n := 0, r.Range(2, 6); k < n; k++ {
		if r.Bool(0.25) {
			ops = append(ops, h.Op{K: h.OpWrite, S: UserLine(0, k, "once")})
		}
		ops = append(ops, h.Op{K: h.OpWrite, S: line})
		if c.Refresh == h.RefManual {
			ops = append(ops, h.Op{K: h.OpRefresh})
			if r.Bool(0.3) {
				ops = append(ops, h.Op{K: h.OpRefresh})
			}
		} else {
			ops = append(ops, h.Op{K: h.OpSleep, D: []int64{period, period, period / 2, 2 * period}[r.Intn(4)]})
		}
	}
	for b := 0; b < nb; b++ {
		if r.Bool(0.5) {
			ops = append(ops, h.Op{K: h.OpAbort, Bar: b})
		} else {
			ops = append(ops, h.Op{K: h.OpIncr, Bar: b, N: sc.Bars[b].Total})
		}
	}
	if c.Refresh == h.RefManual {
		ops = append(ops, h.Op{K: h.OpRefresh}, h.Op{K: h.OpRefresh}, h.Op{K: h.OpRefresh})
	}
	sc.Clients = [][]h.Op{ops}
	p := DefaultProfile("C13")
	sc.Sched = genSched(r, &p)
	return sc
}

// genC13Tail: the last text a program writes does not end its line ("status: all done" through
// fmt.Fprint, the last chunk of an io.Copy): the bytes are emitted all the same.
func genC13Tail(r *Rand) *h.Scenario {
	sc := &h.Scenario{Prop: "C13"}
	c := &sc.Cont
	c.Refresh = r.Weighted(6, 4, 0)
	if c.Refresh == h.RefAuto {
		c.RateNS = refreshRates[r.Intn(4)]
	}
	c.QueueLen = -1
	if r.Bool(0.4) {
		c.Terminal, c.TermW, c.TermH = true, 120, r.Range(8, 30)
	} else {
		c.Width = 120
	}
	nb := r.Range(0, 2)
	for b := 0; b < nb; b++ {
		sc.Bars = append(sc.Bars, h.BarSpec{Total: int64(r.Range(2, 9)), QueueAfter: -1, Filler: r.Weighted(2, 0, 0, 2)})
		sc.Initial = append(sc.Initial, b)
	}
	period := c.RateNS
	pause := func(ops []h.Op) []h.Op {
		if c.Refresh == h.RefManual {
			return append(ops, h.Op{K: h.OpRefresh})
		}
		return append(ops, h.Op{K: h.OpSleep, D: []int64{period, period / 2, 2 * period}[r.Intn(3)]})
	}
	var ops []h.Op
	for k, n := 0, r.Range(0, 3); k < n; k++ {
		ops = pause(append(ops, h.Op{K: h.OpWrite, S: UserLine(0, k, "progress note")}))
	}
	var last []h.Op
	for b := 0; b < nb; b++ {
		if r.Bool(0.5) {
			last = append(last, h.Op{K: h.OpAbort, Bar: b})
		} else {
			last = append(last, h.Op{K: h.OpIncr, Bar: b, N: sc.Bars[b].Total})
		}
		if r.Bool(0.3) {
			last = pause(last)
		}
	}
	at := r.Intn(len(last) + 1)
	tail := h.Op{K: h.OpWrite, S: tailPrefix + itoa(r.Range(1, 99)) + "~ status: all done"}
	last = append(last[:at:at], append([]h.Op{tail}, last[at:]...)...)
	ops = append(ops, last...)
	if c.Refresh == h.RefManual {
		for k, n := 0, r.Range(0, 3); k < n; k++ {
			ops = append(ops, h.Op{K: h.OpRefresh})
		}
	}
	sc.Clients = [][]h.Op{ops}
	p := DefaultProfile("C13")
	sc.Sched = genSched(r, &p)
	return sc
}

// tailPrefix starts the text of a Write that does not end its line (it is not a "user line" for the
// frame parser: the first bar row, if any, follows it on the same line).
const tailPrefix = "~tail"

func genC13(r *Rand, tier string, i int) *h.Scenario {
	if r.Bool(0.15) {
		return genC13Repeat(r)
	}
	if r.Bool(0.08) {
		return genC13Tail(r)
	}
	p := DefaultProfile("C13")
	p.RefreshW = [3]int{6, 3, 0}
	p.WWrite = 10
	p.PLate = 0.6
	p.PQueueAfter = 0
	p.PDelay = 0.15
	p.PTerminal = 0.3
	p.MaxClients = 4
	sc := GenBase(r, &p)
	// somebody else stops the container while main is about to wait: text accepted before that must
	// still be in the output when main's Wait returns
	if len(sc.Clients) > 0 && !sc.Cont.UserWG && r.Bool(0.1) {
		who := r.Intn(len(sc.Clients))
		sc.Clients[who] = append(sc.Clients[who], h.Op{K: []int{h.OpShutdown, h.OpCancel}[r.Intn(2)]})
	}
	// writes racing with the final render: main writes right before Wait
	if r.Bool(0.4) {
		sc.Main = append(sc.Main, h.Op{K: h.OpWrite, S: UserLine(-1, 900+i%50, "racing-with-wait")})
	}
	if r.Bool(0.5) {
		sc.Post = append(sc.Post, h.Op{K: h.OpWrite, S: UserLine(-2, 950, "after-wait")})
	}
	return sc
}

func judgeC13(hi *Hist) []*Violation {
	if hi.Res.Outcome != simrt.OK {
		return nil
	}
	var out []*Violation
	add := func(o, f string, a ...interface{}) {
		if len(out) == 0 {
			out = append(out, viol("C13", o, f, a...))
		}
	}
	frames := ParseFrames(hi)
	// "no later than the last frame written before Wait returns"
	if hi.WaitOut >= 0 {
		for k, f := range frames {
			if f.W.At > hi.WaitOut && len(f.User) > 0 {
				add("emitted-after-wait", "frame %d, written after Wait had returned, carries text written through the container: %q", k, f.User[0])
			}
		}
	}
	// the output as one stream of user lines with their positions
	type pos struct{ frame, idx int }
	where := map[string][]pos{}
	for k, f := range frames {
		for i, ln := range f.User {
			where[ln] = append(where[ln], pos{k, i})
		}
		// user bytes inside the bar region
		for _, r := range f.Rows {
			if r.Kind == 'U' {
				add("text-below-bars", "frame %d carries user text below a bar row: %q", k, r.Text)
			} else if userRe.MatchString(r.Text) || strings.Contains(r.Text, ":after-wait") {
				add("text-inside-row", "frame %d: user text inside a bar row: %q", k, r.Text)
			}
		}
	}
	fault := faulted(hi)
	// with a render delay, rendering has demonstrably started once the first
	// frame has been written; the container may notice the closed delay
	// channel later than a Write that was invoked after the close
	delayOpenUntil := -1
	if hi.Sc.Cont.Delay {
		delayOpenUntil = len(hi.Log)
		if len(hi.Writes) > 0 {
			delayOpenUntil = hi.Writes[0].At
		}
	}
	type wr struct {
		op    *OpRec
		lines []string
	}
	var writes []wr
	// a line written by several calls: every successful call's copy is emitted (exactly once each)
	mult := map[string]int{}
	multOK := map[string]int{}
	multLastRet := map[string]int{}
	multFirstInv := map[string]int{}
	for _, op := range hi.Ops {
		if op.Op.K != h.OpWrite {
			continue
		}
		for _, l := range strings.Split(strings.TrimSuffix(op.Op.S, "\n"), "\n") {
			if l == "" || strings.HasPrefix(l, tailPrefix) {
				continue // an empty Write has no line; an unterminated one is counted by its bytes below
			}
			mult[l]++
			if op.Ret >= 0 && op.RS == "" && int(op.R) == len(op.Op.S) {
				multOK[l]++
				if op.Ret > multLastRet[l] {
					multLastRet[l] = op.Ret
				}
			} else if op.Ret < 0 {
				multOK[l] = -1 << 30 // one copy still in flight: nothing to count
			}
			if _, ok := multFirstInv[l]; !ok {
				multFirstInv[l] = op.Inv
			}
		}
	}
	var multLines []string
	for l := range mult {
		multLines = append(multLines, l)
	}
	sort.Strings(multLines) // the first violation is the one reported: it must not depend on map order
	for _, l := range multLines {
		m := mult[l]
		if m < 2 || multOK[l] < 0 {
			continue
		}
		n := len(where[l])
		note("c13_repeated_lines_checked")
		switch {
		case n > multOK[l]:
			add("emitted-twice", "line %q was written by %d successful Write calls but emitted %d times", l, multOK[l], n)
		case n < multOK[l] && !fault && multFirstInv[l] >= delayOpenUntil:
			if AutoMode(hi.Sc) && hi.WaitOut >= 0 {
				add("lost", "line %q was written by %d successful Write calls but emitted only %d times (Wait has returned)", l, multOK[l], n)
			}
			if hi.Sc.Cont.Refresh == h.RefManual {
				for k := range frames {
					if cycleFirstEvent(hi, frames, k) > multLastRet[l] && frames[k].W.Err == "" {
						add("lost", "line %q was written by %d successful Write calls, the last returned before the render cycle of frame %d began, but it was emitted only %d times", l, multOK[l], k, n)
						break
					}
				}
			}
		}
	}
	for _, op := range hi.Ops {
		if op.Op.K != h.OpWrite || op.Ret < 0 {
			continue
		}
		okRet := op.RS == "" && int(op.R) == len(op.Op.S)
		if strings.HasPrefix(op.Op.S, tailPrefix) {
			// text that does not end its line: its bytes are in the output exactly once
			n := 0
			for _, w := range hi.Writes {
				n += strings.Count(string(w.Payload), op.Op.S)
			}
			note("c13_unterminated_writes_checked")
			switch {
			case !okRet:
				if n > 0 && !(hi.WaitOut >= 0 && op.Inv > hi.WaitOut) {
					add("failed-write-emitted", "Write returned (%d, %q) but its text %q was emitted", op.R, op.RS, op.Op.S)
				}
			case n > 1:
				add("emitted-twice", "text %q of a successful Write (no newline at its end) was emitted %d times", op.Op.S, n)
			case n == 0 && !fault && op.Inv >= delayOpenUntil:
				if AutoMode(hi.Sc) && hi.WaitOut >= 0 {
					add("lost", "Write of %q (no newline at its end) returned (%d, nil) but the text never reached the output (Wait has returned)", op.Op.S, op.R)
				}
				if hi.Sc.Cont.Refresh == h.RefManual {
					for k := range frames {
						if cycleFirstEvent(hi, frames, k) > op.Ret && frames[k].W.Err == "" {
							add("lost", "Write of %q (no newline at its end) returned before the render cycle of frame %d began but neither that frame nor a later one carries it", op.Op.S, k)
							break
						}
					}
				}
			}
			continue
		}
		lines := strings.SplitAfter(op.Op.S, "\n")
		var ls []string
		for _, l := range lines {
			if l != "" {
				ls = append(ls, strings.TrimSuffix(l, "\n"))
			}
		}
		writes = append(writes, wr{op, ls})
		if hi.WaitOut >= 0 && op.Inv > hi.WaitOut {
			if op.RS != "ErrDone" || op.R != 0 {
				add("late-write", "Write invoked after Wait returned gave (%d, %q), want (0, ErrDone)", op.R, op.RS)
			}
		}
		for _, l := range ls {
			if mult[l] > 1 {
				continue // the same line written several times: counted below
			}
			note("user_lines_checked")
			n := len(where[l])
			switch {
			case !okRet:
				if n > 0 {
					add("failed-write-emitted", "Write returned (%d, %q) but its line %q was emitted", op.R, op.RS, l)
				}
			case n > 1:
				add("emitted-twice", "line %q of a successful Write was emitted %d times", l, n)
			case n == 0 && !fault:
				// accepted while the render delay was still open: outside the statement
				if op.Inv < delayOpenUntil {
					continue
				}
				if AutoMode(hi.Sc) && hi.WaitOut >= 0 {
					add("lost", "Write of %q returned (%d, nil) but the line never reached the output (Wait has returned)", l, op.R)
				}
				if hi.Sc.Cont.Refresh == h.RefManual {
					// must ride on the first frame whose cycle began after the write returned, if any
					for k := range frames {
						if cycleFirstEvent(hi, frames, k) > op.Ret && frames[k].W.Err == "" {
							add("lost", "Write of %q returned before the render cycle of frame %d began but neither that frame nor a later one carries it", l, k)
							break
						}
					}
				}
			}
		}
		if okRet && len(ls) > 1 {
			// the bytes of one Write stay together and in order
			var ps []pos
			for _, l := range ls {
				if len(where[l]) == 1 && mult[l] == 1 {
					ps = append(ps, where[l][0])
				}
			}
			for j := 1; j < len(ps); j++ {
				if ps[j].frame != ps[j-1].frame || ps[j].idx != ps[j-1].idx+1 {
					add("write-split", "the lines of one Write were not emitted contiguously: %v", ls)
				}
			}
		}
	}
	// order: if A returned before B was invoked (or same client, earlier), A's bytes precede B's
	type ev struct {
		op *OpRec
		p  pos
	}
	var evs []ev
	for _, w := range writes {
		if len(w.lines) == 0 || len(where[w.lines[0]]) != 1 || mult[w.lines[0]] > 1 {
			continue // (a line written several times cannot be attributed to one call)
		}
		evs = append(evs, ev{w.op, where[w.lines[0]][0]})
	}
	sort.Slice(evs, func(i, j int) bool { return evs[i].op.Inv < evs[j].op.Inv })
	for i := range evs {
		for j := i + 1; j < len(evs); j++ {
			a, b := evs[i], evs[j]
			if a.op.Ret < b.op.Inv {
				if a.p.frame > b.p.frame || (a.p.frame == b.p.frame && a.p.idx > b.p.idx) {
					add("order", "Write %q returned before Write %q was invoked but is emitted after it (frame %d line %d vs frame %d line %d)",
						clip(a.op.Op.S, 30), clip(b.op.Op.S, 30), a.p.frame, a.p.idx, b.p.frame, b.p.idx)
				}
			}
		}
	}
	// lines in the output that nobody wrote
	known := map[string]bool{}
	for _, w := range writes {
		for _, l := range w.lines {
			known[l] = true
		}
	}
	for _, op := range hi.Ops {
		if op.Op.K == h.OpWrite && op.Ret < 0 {
			for _, l := range strings.Split(op.Op.S, "\n") {
				known[l] = true
			}
		}
	}
	for l := range where {
		if !known[l] {
			add("modified", "the output contains user line %q which no Write call wrote", l)
		}
	}
	return out
}

var _ = fmt.Sprintf
