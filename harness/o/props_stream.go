package o

import (
	"bytes"
	"fmt"

	"verif/sim/simrt"

	"github.com/vbauerster/mpb/v8/zzverif/h"
)

func init() {
	register(&PropDef{ID: "C19", Gen: genC19, Judge: judgeC19, Expand: expandC19, NonTrivial: func(hi *Hist) bool {
		n := 0
		for i := range hi.Log {
			if hi.Log[i].Kind == h.EvStream {
				n++
			}
		}
		return n >= 4
	}, Probes: []string{"c19_calls_compared", "c19_samples_compared", "c19_fast_path", "c19_stream_errors", "c19_zero_reads"}})
}

func genStream(r *Rand) *h.StreamSpec {
	sp := &h.StreamSpec{Writer: r.Bool(0.5), HasClose: r.Bool(0.5), HasFast: r.Bool(0.4), UseCopy: r.Bool(0.4), DoClose: r.Bool(0.7),
		CloseErr: r.Bool(0.2), Len: r.Range(0, 48), Seed: r.Next()}
	pos := false
	for k, n := 0, r.Range(1, 4); k < n; k++ {
		c := []int{0, 1, 2, 3, 5, 8, 100}[r.Intn(7)]
		if c > 0 {
			pos = true
		}
		sp.Chunks = append(sp.Chunks, c)
	}
	if !pos {
		sp.Chunks = append(sp.Chunks, r.Range(1, 9))
	}
	if r.Bool(0.2) {
		sp.Chunks = nil // always full
	}
	pos = false
	for k, n := 0, r.Range(1, 3); k < n; k++ {
		c := []int{0, 1, 2, 3, 7, 16, 64}[r.Intn(7)]
		if c > 0 {
			pos = true
		}
		sp.BufSizes = append(sp.BufSizes, c)
	}
	if !pos {
		sp.BufSizes = append(sp.BufSizes, r.Range(1, 16))
	}
	for k, n := 0, r.Range(0, 3); k < n; k++ {
		sp.Latency = append(sp.Latency, []int64{0, 1e3, 1e6, 5e7}[r.Intn(4)])
	}
	return sp
}

func genC19(r *Rand, tier string, i int) *h.Scenario {
	sc := &h.Scenario{Prop: "C19"}
	c := &sc.Cont
	c.Refresh = r.Weighted(5, 2, 2)
	if c.Refresh == h.RefAuto {
		c.RateNS = refreshRates[r.Intn(4)]
	}
	c.QueueLen = -1
	c.Width = 200
	sp := genStream(r)
	bar := h.BarSpec{QueueAfter: -1, Filler: r.Weighted(3, 1, 1, 3)}
	switch r.Intn(5) {
	case 0:
		bar.Total = 0 // unknown
	case 1:
		bar.Total = -1
	case 2:
		bar.Total = int64(sp.Len)
	case 3:
		bar.Total = int64(sp.Len) + int64(r.Range(1, 50))
	case 4:
		bar.Total = int64(r.Range(1, sp.Len+1))
	}
	// moving-average recorders: bare and wrapped, on both sides
	for k, n := 0, r.Weighted(3, 3, 2); k < n; k++ {
		d := h.DecSpec{Kind: h.DecProbe, Ewma: true, Text: 1, Listener: r.Bool(0.2)}
		for w, m := 0, r.Weighted(2, 1, 1, 1); w < m; w++ {
			d.Wrap = append(d.Wrap, r.Intn(7))
		}
		if r.Bool(0.5) {
			bar.Pre = append(bar.Pre, d)
		} else {
			bar.App = append(bar.App, d)
		}
	}
	if r.Bool(0.3) {
		bar.App = append(bar.App, h.DecSpec{Kind: []int{h.DecEwmaSpeed, h.DecEwmaETA}[r.Intn(2)], Style: r.Intn(4), Wrap: []int{r.Intn(7)}})
	}
	sc.Bars = []h.BarSpec{bar}
	sc.Initial = []int{0}
	ops := []h.Op{{K: h.OpProxy, Bar: 0, Stream: sp}}
	if r.Bool(0.3) {
		// a second copy through a fresh proxy of the same bar
		ops = append(ops, h.Op{K: h.OpProxy, Bar: 0, Stream: genStream(r)})
	}
	ops = append(ops, h.Op{K: h.OpCurrent, Bar: 0})
	if bar.Total <= 0 {
		ops = append(ops, h.Op{K: h.OpSetTotal, Bar: 0, N: -1, Flag: true})
	} else {
		ops = append(ops, h.Op{K: h.OpAbort, Bar: 0})
	}
	sc.Clients = [][]h.Op{ops}
	// background: a bar with its own client and, sometimes, a second client incrementing the proxied bar
	if r.Bool(0.4) {
		sc.Bars = append(sc.Bars, h.BarSpec{QueueAfter: -1, Total: 5, Filler: h.FillProbe})
		sc.Initial = append(sc.Initial, 1)
		sc.Clients = append(sc.Clients, []h.Op{{K: h.OpIncrement, Bar: 1}, {K: h.OpSleep, D: genSleep(r, c)}, {K: h.OpIncr, Bar: 1, N: 5}})
	}
	if r.Bool(0.15) {
		sc.Mode = "shared"
		sc.Clients = append(sc.Clients, []h.Op{{K: h.OpIncrement, Bar: 0}, {K: h.OpIncrement, Bar: 0}})
	}
	if c.Refresh == h.RefManual {
		sc.Clients = append(sc.Clients, []h.Op{{K: h.OpRefresh}, {K: h.OpSleep, D: 1e6}, {K: h.OpRefresh}, {K: h.OpRefresh}})
	}
	p := DefaultProfile("C19")
	sc.Sched = genSched(r, &p)
	return sc
}

// expandC19 places a stream failure at every call of the fault-free run.
func expandC19(base *h.Scenario, hi *Hist, r *Rand, tier string) []*h.Scenario {
	if hi.Res.Outcome != simrt.OK {
		return nil
	}
	for _, op := range base.Clients[0] {
		if op.K == h.OpProxy && op.Stream.FailAt != 0 {
			return nil
		}
	}
	calls := 0
	for i := range hi.Log {
		if e := &hi.Log[i]; e.Kind == h.EvStream {
			rec := e.V.(h.StreamRec)
			if rec.Side == "stub" && rec.Call != "Close" {
				calls++
			}
		}
	}
	if calls > 24 {
		calls = 24
	}
	var out []*h.Scenario
	for k := 1; k <= calls; k++ {
		v := cloneScenario(base)
		for i := range v.Clients[0] {
			if v.Clients[0][i].K == h.OpProxy {
				v.Clients[0][i].Stream.FailAt = k
				v.Clients[0][i].Stream.FailWithN = k%2 == 0
				break
			}
		}
		v.Mode += "+fail"
		out = append(out, v)
	}
	return out
}

func judgeC19(hi *Hist) []*Violation {
	if hi.Res.Outcome != simrt.OK {
		return nil
	}
	var out []*Violation
	add := func(o, f string, a ...interface{}) {
		if len(out) == 0 {
			out = append(out, viol("C19", o, f, a...))
		}
	}
	shared := hi.Sc.Mode == "shared" || hi.Sc.Mode == "shared+fail"
	bar := hi.Sc.Bars[0]
	ref := NewRefBar(bar.Total)
	// collect the stream records per proxy operation of client 0
	for _, op := range hi.Ops {
		if op.Client != 0 || op.Op.K != h.OpProxy || op.Ret < 0 {
			continue
		}
		sp := op.Op.Stream
		refBefore := ref
		var recs []h.StreamRec
		var curs []int64
		var at []int
		for i := op.Inv; i <= op.Ret; i++ {
			if e := &hi.Log[i]; e.Kind == h.EvStream && e.G == hi.Log[op.Inv].G {
				recs = append(recs, e.V.(h.StreamRec))
				curs = append(curs, e.A)
				at = append(at, i)
			}
		}
		_ = at
		src := h.StreamBytes(sp)
		var stubCalls []h.StreamRec // data-carrying stub calls, in order
		var pending []h.StreamRec   // stub calls not yet matched with a proxy call
		var stubData, proxyData []byte
		closes := 0
		proxyNil := false
		for k, rec := range recs {
			if rec.Side == "stub" {
				if rec.Call == "Close" {
					closes++
				} else {
					stubCalls = append(stubCalls, rec)
					stubData = append(stubData, rec.Data...)
				}
				pending = append(pending, rec)
				continue
			}
			cur := curs[k]
			switch rec.Call {
			case "nil":
				proxyNil = true
				if !ref.Terminal() && !shared {
					add("nil-proxy", "the proxy obtained from a live bar (current %d, total %d) is nil", cur, bar.Total)
				}
			case "shape":
				if (rec.N == 1) != sp.HasFast {
					add("fast-path", "wrapped value offers the fast path: %v, proxy offers it: %v (writer=%v, closer=%v)", sp.HasFast, rec.N == 1, sp.Writer, sp.HasClose)
				}
			case "Read", "Write":
				if len(pending) != 1 || pending[0].Call != rec.Call {
					add("call-forwarding", "proxy %s was not forwarded as exactly one %s to the wrapped value (saw %d calls)", rec.Call, rec.Call, len(pending))
					pending = nil
					break
				}
				st := pending[0]
				pending = nil
				note("c19_calls_compared")
				if st.Err != "" && st.Err != "EOF" {
					note("c19_stream_errors")
				}
				if st.N == 0 && st.Err == "" {
					note("c19_zero_reads")
				}
				if st.N != rec.N || st.Err != rec.Err {
					add("result", "proxy %s returned (%d, %q) but the wrapped value returned (%d, %q)", rec.Call, rec.N, rec.Err, st.N, st.Err)
				}
				if rec.Call == "Read" && !bytes.Equal(rec.Data, st.Data) {
					add("data", "proxy Read delivered %q but the wrapped reader produced %q", rec.Data, st.Data)
				}
				if rec.Call == "Write" && rec.N >= 0 && int(rec.N) <= len(rec.Data) && !bytes.Equal(st.Data, rec.Data[:rec.N]) {
					add("data", "proxy Write was given %q (n=%d) but the wrapped writer accepted %q", rec.Data, rec.N, st.Data)
				}
				ref.Apply(h.Op{K: h.OpIncrBy, N: rec.N})
				if !shared && cur != ref.Current {
					add("accounting", "after a proxy %s of %d bytes Current() is %d, the reference (total %d) says %d", rec.Call, rec.N, cur, bar.Total, ref.Current)
				}
			case "Copy":
				var total int64
				lastErr := ""
				for _, st := range pending {
					if st.Call == "Close" {
						continue
					}
					total += st.N
					if st.Err != "" && st.Err != "EOF" {
						lastErr = st.Err
					}
				}
				note("c19_copies_compared")
				if sp.HasFast {
					note("c19_fast_path")
					fast := "WriteTo"
					if sp.Writer {
						fast = "ReadFrom"
					}
					if len(pending) != 1 || pending[0].Call != fast {
						add("fast-path-unused", "io.Copy through the proxy did not use the wrapped value's %s exactly once (calls: %s)", fast, callNames(pending))
					}
				}
				if rec.N != total && !(sp.Writer && !sp.HasFast) {
					add("copy-count", "io.Copy through the proxy reported %d bytes but the wrapped value transferred %d", rec.N, total)
				}
				if sp.Writer && !sp.HasFast && rec.N != total {
					add("copy-count", "io.Copy into the proxy writer reported %d bytes but the wrapped writer accepted %d", rec.N, total)
				}
				if lastErr != "" && rec.Err != lastErr {
					add("copy-error", "the wrapped value failed with %q but io.Copy through the proxy returned %q", lastErr, rec.Err)
				}
				if !sp.Writer {
					proxyData = append(proxyData, rec.Data...)
					if !bytes.Equal(rec.Data, stubData) {
						add("data", "io.Copy through the proxy reader delivered %q but the wrapped reader produced %q", rec.Data, stubData)
					}
				}
				for _, st := range pending {
					if st.Call != "Close" {
						ref.Apply(h.Op{K: h.OpIncr, N: st.N})
					}
				}
				pending = nil
				if !shared && cur != ref.Current {
					add("accounting", "after io.Copy of %d bytes Current() is %d, the reference (total %d) says %d", total, cur, bar.Total, ref.Current)
				}
			case "Close":
				nClose := 0
				cerr := ""
				for _, st := range pending {
					if st.Call == "Close" {
						nClose++
						cerr = st.Err
					}
				}
				pending = nil
				if sp.HasClose {
					if nClose != 1 {
						add("close-forwarding", "Close on the proxy reached the wrapped value %d times", nClose)
					} else if cerr != rec.Err {
						add("close-error", "the wrapped value's Close returned %q, the proxy's %q", cerr, rec.Err)
					}
				} else if rec.Err != "" {
					add("close-error", "the wrapped value has no Close but the proxy's Close returned %q", rec.Err)
				}
			}
		}
		if proxyNil {
			continue
		}
		// byte conservation: what left the source is what arrived
		if !sp.Writer {
			if !bytes.HasPrefix(src, stubData) {
				add("data", "the wrapped reader produced %q which is not a prefix of the stream %q", stubData, src)
			}
		} else if !bytes.HasPrefix(src, stubData) {
			add("data", "the wrapped writer accepted %q which is not a prefix of the written stream %q", stubData, src)
		}
		// moving-average recorders: one sample per data call, with its byte count and duration
		if !ref.Terminal() || true {
			checkSamples(hi, op, stubCalls, refBefore, bar, shared, add)
		}
	}
	return out
}

func callNames(recs []h.StreamRec) string {
	s := ""
	for _, r := range recs {
		s += r.Call + " "
	}
	return s
}

// checkSamples compares the samples received by every EwmaDecorator of bar 0
// during a proxy operation with the calls made on the wrapped value.
func checkSamples(hi *Hist, op *OpRec, calls []h.StreamRec, before RefBar, bar h.BarSpec, shared bool, add func(o, f string, a ...interface{})) {
	type key struct{ side, ord int }
	want := map[key]bool{}
	for side, list := range [][]h.DecSpec{bar.Pre, bar.App} {
		for ord, d := range list {
			if d.Kind == h.DecProbe && d.Ewma {
				want[key{side, ord}] = true
			}
		}
	}
	if len(want) == 0 {
		return
	}
	// samples are delivered by the bar's goroutine, possibly after the proxy call returned: take
	// everything up to the next operation of the client that touches the bar synchronously (a getter)
	end := len(hi.Log)
	for _, o2 := range hi.Ops {
		if o2.Client == op.Client && o2.Inv > op.Ret && (o2.Op.K == h.OpCurrent || o2.Op.K == h.OpProxy) {
			end = o2.Ret
			if o2.Op.K == h.OpProxy {
				end = o2.Inv
			}
			break
		}
	}
	got := map[key][]h.EwmaRec{}
	for i := op.Inv; i < end && i < len(hi.Log); i++ {
		if e := &hi.Log[i]; e.Kind == h.EvEwma && e.ID == 0 {
			rec := e.V.(h.EwmaRec)
			got[key{rec.Side, rec.Ord}] = append(got[key{rec.Side, rec.Ord}], rec)
		}
	}
	// the bar may complete in mid-stream: samples after that are not delivered
	for k := range want {
		samples := got[k]
		m := before // what the bar looked like before this operation
		delivered := 0
		for _, c := range calls {
			if m.Terminal() {
				break
			}
			if delivered >= len(samples) {
				if shared {
					break
				}
				add("sample-missing", "moving-average decorator %d/%d received %d samples for %d calls on the wrapped value (bar not finished): call %s n=%d", k.side, k.ord, len(samples), len(calls), c.Call, c.N)
				return
			}
			s := samples[delivered]
			delivered++
			note("c19_samples_compared")
			if s.N != c.N {
				add("sample-bytes", "moving-average decorator %d/%d: sample %d carries %d bytes, the call transferred %d", k.side, k.ord, delivered, s.N, c.N)
				return
			}
			if s.Dur < c.Dur || s.Dur > c.Dur+16 {
				add("sample-duration", "moving-average decorator %d/%d: sample %d carries duration %dns, the call took %dns", k.side, k.ord, delivered, s.Dur, c.Dur)
				return
			}
			m.Apply(h.Op{K: h.OpIncr, N: c.N})
		}
		if !m.Terminal() && len(samples) > delivered && !shared {
			add("sample-extra", "moving-average decorator %d/%d received %d samples for %d calls", k.side, k.ord, len(samples), len(calls))
			return
		}
	}
	_ = fmt.Sprint
}
