package o

import (
	"verif/sim/simrt"

	"github.com/vbauerster/mpb/v8/zzverif/h"
)

func init() {
	register(&PropDef{ID: "C17", Gen: genC17, Judge: judgeC17, NonTrivial: func(hi *Hist) bool {
		for _, bf := range Facts(hi) {
			if bf.Queued {
				return len(hi.Writes) >= 2
			}
		}
		return false
	}, Probes: []string{"c17_two_successors", "c17_late_successor", "c17_chain", "c17_handover_checked"}})
}

// genC17 builds histories over {create predecessor, predecessor finishes,
// predecessor flushed, create successor(s), successor finishes}.
func genC17(r *Rand, tier string, i int) *h.Scenario {
	sc := &h.Scenario{Prop: "C17"}
	c := &sc.Cont
	c.Refresh = r.Weighted(7, 2, 1)
	if c.Refresh == h.RefAuto {
		c.RateNS = []int64{1e6, 1e7, 15e7, 3600e9}[r.Intn(4)]
	}
	c.QueueLen = []int{-1, 0, 1, 2, 128}[r.Intn(5)]
	c.Width = 200
	c.Pop = r.Bool(0.25)
	if r.Bool(0.3) {
		c.Notifier = 1 + r.Intn(2)
	}
	// the late-successor history is an open finding (F4b): keep most of the budget outside it
	mode := r.Weighted(5, 4, 1, 3, 2, 2) // 0 one successor, 1 several successors of one predecessor, 2 late successor, 3 chain, 4 two predecessors, 5 chain grown after a hand-over
	sc.Mode = []string{"single", "fanout", "late", "chain", "twopred", "grow"}[mode]
	newBar := func(after int) int {
		b := h.BarSpec{QueueAfter: after, Total: int64(r.Range(1, 9)), Filler: r.Weighted(3, 1, 1, 3), RmOnComp: r.Bool(0.3), NoPop: r.Bool(0.3)}
		if r.Bool(0.2) {
			b.Total = 0
		}
		if r.Bool(0.3) {
			b.Pre = append(b.Pre, genDec(r, &Profile{PSync: 0.5}, r.Bool(0.5)))
		}
		if r.Bool(0.2) {
			b.ExtRows = r.Range(1, 2)
		}
		if after < 0 && r.Bool(0.3) {
			b.HasPrio, b.Prio = true, r.Range(0, 5)
		}
		sc.Bars = append(sc.Bars, b)
		return len(sc.Bars) - 1
	}
	finish := func(b int) []h.Op {
		bs := &sc.Bars[b]
		switch {
		case r.Bool(0.3):
			return []h.Op{{K: h.OpAbort, Bar: b, Flag: r.Bool(0.4)}}
		case bs.Total > 0:
			return []h.Op{{K: h.OpIncr, Bar: b, N: bs.Total}}
		default:
			return []h.Op{{K: h.OpSetTotal, Bar: b, N: -1, Flag: true}}
		}
	}
	// sleeps are a few refresh periods long at most: every period costs a render cycle
	period := c.RateNS
	if period == 0 || period > 1e9 {
		period = 1e8
	}
	sleep := func() h.Op {
		return h.Op{K: h.OpSleep, D: []int64{1e3, period / 2, 3 * period, 12 * period}[r.Intn(4)]}
	}
	// bystanders around the predecessor so that "position" means something
	var ops []h.Op
	nBy := r.Range(0, 3)
	if mode == 2 && nBy == 0 {
		nBy = 1 // the client must still own an unfinished bar when it adds the late successor
	}
	var by []int
	for k := 0; k < nBy; k++ {
		by = append(by, newBar(-1))
	}
	pred := newBar(-1)
	pred2 := -1
	if mode == 4 {
		pred2 = newBar(-1)
	}
	if r.Bool(0.5) {
		by = append(by, newBar(-1))
	}
	for b := range sc.Bars {
		sc.Initial = append(sc.Initial, b)
	}
	var succs []int
	addNow := func(after int) int {
		s := newBar(after)
		ops = append(ops, h.Op{K: h.OpAdd, Bar: s})
		succs = append(succs, s)
		return s
	}
	// the predecessor (or a bystander) may move after the successor has been queued: the successor
	// takes the place the predecessor has when it leaves
	move := func() {
		if r.Bool(0.5) {
			who := pred
			if len(by) > 0 && r.Bool(0.3) {
				who = by[r.Intn(len(by))]
			}
			ops = append(ops, h.Op{K: []int{h.OpSetPriority, h.OpUpdatePriority}[r.Intn(2)], Bar: who, N: int64(r.Range(0, 9)), Flag: r.Bool(0.3)})
			if r.Bool(0.6) {
				ops = append(ops, h.Op{K: h.OpSleep, D: 3 * period})
			}
		}
	}
	switch mode {
	case 0:
		if r.Bool(0.5) {
			ops = append(ops, h.Op{K: h.OpIncrement, Bar: pred})
		}
		addNow(pred)
		move()
		if r.Bool(0.5) {
			ops = append(ops, sleep())
		}
		ops = append(ops, finish(pred)...)
	case 1:
		for k, n := 0, r.Range(2, 3); k < n; k++ {
			addNow(pred)
			if r.Bool(0.3) {
				ops = append(ops, sleep())
			}
		}
		ops = append(ops, finish(pred)...)
	case 2:
		ops = append(ops, finish(pred)...)
		switch r.Intn(3) {
		case 0: // right after finishing
		case 1:
			ops = append(ops, h.Op{K: h.OpBarWait, Bar: pred})
		case 2:
			ops = append(ops, h.Op{K: h.OpBarWait, Bar: pred}, h.Op{K: h.OpSleep, D: 6 * period})
		}
		addNow(pred)
	case 5:
		// a chain that keeps growing: the first hand-over has happened before the next links are queued
		s1 := addNow(pred)
		ops = append(ops, finish(pred)...)
		ops = append(ops, h.Op{K: h.OpSleep, D: 6 * period})
		s2 := addNow(s1)
		s3 := addNow(s2)
		if r.Bool(0.4) {
			addNow(s1)
		}
		_ = s3
	case 4:
		// two predecessors that finish between the same two render cycles: both hand over in one flush
		addNow(pred)
		addNow(pred2)
		if r.Bool(0.3) {
			addNow(pred)
		}
		move()
		ops = append(ops, finish(pred)...)
		if r.Bool(0.2) {
			ops = append(ops, sleep())
		}
		ops = append(ops, finish(pred2)...)
	case 3:
		s1 := addNow(pred)
		s2 := addNow(s1)
		if r.Bool(0.4) {
			addNow(s2)
		}
		ops = append(ops, finish(pred)...)
	}
	// successors and bystanders progress and finish in some order
	rest := append(append([]int{}, succs...), by...)
	for k := len(rest) - 1; k > 0; k-- {
		j := r.Intn(k + 1)
		rest[k], rest[j] = rest[j], rest[k]
	}
	for _, b := range rest {
		if r.Bool(0.5) {
			ops = append(ops, sleep())
		}
		if r.Bool(0.4) && sc.Bars[b].Total > 1 {
			ops = append(ops, h.Op{K: h.OpIncrement, Bar: b})
		}
		ops = append(ops, finish(b)...)
	}
	// Bar.Wait only once everything has been finished: a queued bar cannot shut
	// down before its predecessors have, so waiting earlier would be a circular
	// wait of the client's own making
	for _, b := range rest {
		if r.Bool(0.2) {
			ops = append(ops, h.Op{K: h.OpBarWait, Bar: b})
		}
	}
	sc.Clients = [][]h.Op{ops}
	if c.Refresh == h.RefManual {
		var rf []h.Op
		for k, n := 0, r.Range(6, 16); k < n; k++ {
			rf = append(rf, h.Op{K: h.OpRefresh}, h.Op{K: h.OpSleep, D: 3e7})
		}
		sc.Clients = append(sc.Clients, rf)
	}
	p := DefaultProfile("C17")
	sc.Sched = genSched(r, &p)
	// small programs: a hang shows up long before the default budgets
	sc.Sched.MaxSteps, sc.Sched.FairSteps = 20000, 40000
	return sc
}

func judgeC17(hi *Hist) []*Violation {
	res := hi.Res
	facts := Facts(hi)
	queued := false
	for _, bf := range facts {
		if bf.Queued {
			queued = true
		}
	}
	if !queued {
		return nil
	}
	var out []*Violation
	add := func(o, f string, a ...interface{}) {
		if len(out) == 0 {
			out = append(out, viol("C17", o, f, a...))
		}
	}
	// accounted for by Wait
	switch res.Outcome {
	case simrt.Deadlock:
		add("wait-deadlock", "with queued bars, no goroutine can make progress (wait entered: %v, returned: %v)\n%s%s", hi.WaitIn >= 0, hi.WaitOut >= 0, stuckOps(hi), describeLive(res))
		return out
	case simrt.Hang:
		add("wait-hang", "with queued bars, Wait did not return within the fair-suffix budget\n%s%s", stuckOps(hi), describeLive(res))
		return out
	case simrt.Panic:
		return nil
	}
	auto := AutoMode(hi.Sc)
	if (!auto && hi.Sc.Cont.Refresh != h.RefManual) || hi.Sc.Cont.Delay || cancelled(hi) {
		return out
	}
	frames := ParseFrames(hi)
	if len(frames) == 0 {
		return out
	}
	present := func(k, bar int) bool { return frames[k].Has(bar) }
	for _, bf := range facts {
		if !bf.Queued {
			continue
		}
		pred := facts[bf.Pred]
		first, lastPred, firstPred := -1, -1, -1
		for k := range frames {
			if present(k, bf.Idx) && first < 0 {
				first = k
			}
			if present(k, pred.Idx) {
				lastPred = k
				if firstPred < 0 {
					firstPred = k
				}
				if present(k, bf.Idx) {
					add("shown-with-predecessor", "bar %d (queued after bar %d) is displayed in frame %d together with its predecessor: %s", bf.Idx, pred.Idx, k, frames[k])
				}
			}
		}
		// eventually displayed
		if first < 0 {
			// with manual refresh there may simply have been no frame after the predecessor's last one
			if auto || (lastPred >= 0 && lastPred < len(frames)-1 && bf.AddRet < cycleFirstEvent(hi, frames, lastPred)) {
				add("never-displayed", "bar %d (queued after bar %d) was never displayed although Wait returned (%d frames; predecessor last seen in frame %d)", bf.Idx, pred.Idx, len(frames), lastPred)
			}
			continue
		}
		// the handover frame: successor created before the predecessor's last frame was drawn
		if lastPred >= 0 && lastPred < len(frames)-1 && bf.AddRet < cycleFirstEvent(hi, frames, lastPred) {
			note("c17_handover_checked")
			if first != lastPred+1 {
				add("handover-late", "bar %d (queued after bar %d) first appears in frame %d but its predecessor's last frame is %d", bf.Idx, pred.Idx, first, lastPred)
				continue
			}
			// same place: the bars above it are the bars that were above the predecessor
			above := func(f *Frame, bar int) map[int]bool {
				m := map[int]bool{}
				for _, g := range f.Groups {
					if g.Bar == bar {
						break
					}
					m[g.Bar] = true
				}
				return m
			}
			a, b := above(frames[lastPred], pred.Idx), above(frames[first], bf.Idx)
			sib := map[int]bool{}
			for _, s := range pred.Succ {
				sib[s] = true
			}
			prio := effectivePriorities(hi, facts)
			// priority updates: the latest one that returned before the hand-over counts; one that is
			// in flight around the two frames makes their relative order unspecified
			busy := false
			from, to := cycleFirstEvent(hi, frames, lastPred), frames[first].W.At
			if lastPred > 0 {
				from = frames[lastPred-1].W.At // a lazy change shows one frame late
			}
			for _, op := range hi.Ops {
				if op.Op.K != h.OpSetPriority && op.Op.K != h.OpUpdatePriority {
					continue
				}
				if op.Ret < 0 || (op.Inv < to && op.Ret > from) {
					busy = true
				} else if op.Ret <= from {
					prio[op.Op.Bar] = int(op.Op.N)
				}
			}
			for range facts {
				for _, q := range facts {
					// (a successor promoted earlier carries its own predecessor's priority as well)
					if q.Queued && (frames[first].Has(q.Idx) || frames[lastPred].Has(q.Idx)) {
						prio[q.Idx] = prio[q.Pred]
					}
				}
			}
			if busy {
				continue
			}
			for x := range a {
				if prio[x] == prio[pred.Idx] {
					continue // ties are laid out in unspecified order
				}
				if frames[first].Has(x) && !b[x] && !hi.Sc.Cont.Pop {
					add("handover-position", "bar %d replaces bar %d but bar %d, which was above the predecessor in frame %d, is below it in frame %d:\n%s\n%s", bf.Idx, pred.Idx, x, lastPred, first, frames[lastPred], frames[first])
				}
			}
			for x := range b {
				if prio[x] == prio[pred.Idx] {
					continue
				}
				if frames[lastPred].Has(x) && !a[x] && !sib[x] && !hi.Sc.Cont.Pop {
					add("handover-position", "bar %d replaces bar %d but bar %d, which was below the predecessor in frame %d, is above it in frame %d:\n%s\n%s", bf.Idx, pred.Idx, x, lastPred, first, frames[lastPred], frames[first])
				}
			}
		}
	}
	return out
}

// effectivePriorities returns each bar's priority at creation: the explicit
// one, the creation index (number of bars created before it) or, for queued
// bars, the predecessor's. Valid when Add calls did not overlap.
func effectivePriorities(hi *Hist, facts []*BarFacts) map[int]int {
	type ad struct{ bar, ret int }
	var adds []ad
	for b, op := range hi.Added {
		adds = append(adds, ad{b, op.Ret})
	}
	for i := 1; i < len(adds); i++ {
		for j := i; j > 0 && adds[j].ret < adds[j-1].ret; j-- {
			adds[j], adds[j-1] = adds[j-1], adds[j]
		}
	}
	prio := map[int]int{}
	for k, a := range adds {
		bs := facts[a.bar].Spec
		if bs.HasPrio {
			prio[a.bar] = bs.Prio
		} else {
			prio[a.bar] = k
		}
	}
	for range facts {
		for _, bf := range facts {
			if bf.Queued {
				prio[bf.Idx] = prio[bf.Pred]
			}
		}
	}
	return prio
}
