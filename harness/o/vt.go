package o

import (
	"strings"
	"unicode/utf8"

	"github.com/mattn/go-runewidth"
)

// VT emulates the subset of an ANSI terminal that mpb's output uses:
// printable text with column widths and autowrap (with the pending-wrap
// state of VT100-style terminals), LF (treated as CR LF, as a tty in cooked
// output mode does), CUU n clamped at the top of the screen and ED 0.
// Rows scrolled off the top move into an unbounded scrollback and can no
// longer be reached by the cursor. H <= 0 means unbounded height.
type VT struct {
	W, H   int
	rows   [][]cell
	cy, cx int
	top    int
	Bad    []string // unsupported or suspicious sequences seen
}

type cell struct {
	s    string
	cont bool // right half of a wide character
}

// NewVT returns an emulator with the cursor in the top-left corner.
func NewVT(w, h int) *VT {
	if w <= 0 {
		w = 1 << 20
	}
	return &VT{W: w, H: h, rows: [][]cell{nil}}
}

// Resize changes the size; content is kept (rows are not re-wrapped).
func (t *VT) Resize(w, h int) {
	if w > 0 {
		t.W = w
	}
	t.H = h
	if t.H > 0 && t.cy >= t.top+t.H {
		t.top = t.cy - t.H + 1
	}
	if t.H > 0 && len(t.rows)-t.top < t.H {
		// enlarging: most terminals pull lines back from the scrollback; keep
		// the conservative reading (nothing comes back)
	}
}

func (t *VT) lineFeed() {
	t.cy++
	t.cx = 0
	for len(t.rows) <= t.cy {
		t.rows = append(t.rows, nil)
	}
	if t.H > 0 && t.cy >= t.top+t.H {
		t.top = t.cy - t.H + 1
	}
}

func (t *VT) put(s string, w int) {
	if w == 0 {
		// combining mark: attach to the previous cell
		r := t.rows[t.cy]
		if t.cx > 0 && t.cx-1 < len(r) {
			k := t.cx - 1
			for k > 0 && r[k].cont {
				k--
			}
			r[k].s += s
		}
		return
	}
	if t.cx+w > t.W {
		t.lineFeed()
	}
	r := t.rows[t.cy]
	for len(r) < t.cx+w {
		r = append(r, cell{s: " "})
	}
	// overwriting half of a wide character blanks the other half
	if r[t.cx].cont && t.cx > 0 {
		r[t.cx-1] = cell{s: " "}
	}
	if t.cx+w < len(r) && r[t.cx+w].cont {
		r[t.cx+w] = cell{s: " "}
	}
	r[t.cx] = cell{s: s}
	for k := 1; k < w; k++ {
		r[t.cx+k] = cell{cont: true}
	}
	t.rows[t.cy] = r
	t.cx += w
}

// Write interprets p.
func (t *VT) Write(p []byte) {
	s := string(p)
	for i := 0; i < len(s); {
		c := s[i]
		switch {
		case c == '\n':
			t.lineFeed()
			i++
		case c == '\r':
			t.cx = 0
			i++
		case c == 0x1b:
			// CSI n A | CSI J | CSI ... m
			j := i + 1
			if j < len(s) && s[j] == '[' {
				j++
				start := j
				for j < len(s) && (s[j] >= '0' && s[j] <= '9' || s[j] == ';') {
					j++
				}
				if j >= len(s) {
					t.Bad = append(t.Bad, "truncated escape sequence")
					i = len(s)
					break
				}
				arg := s[start:j]
				switch s[j] {
				case 'A':
					n := atoiDefault(arg, 1)
					if n == 0 {
						n = 1 // cursor up 0 is treated as 1 by some terminals
						t.Bad = append(t.Bad, "CUU 0")
					}
					t.cy -= n
					if t.cy < t.top {
						t.cy = t.top
					}
				case 'J':
					if arg != "" && arg != "0" {
						t.Bad = append(t.Bad, "ED "+arg)
					}
					r := t.rows[t.cy]
					if t.cx < len(r) {
						t.rows[t.cy] = r[:t.cx]
					}
					t.rows = t.rows[:t.cy+1]
				case 'm':
					// SGR: no effect on layout
				default:
					t.Bad = append(t.Bad, "CSI "+arg+string(s[j]))
				}
				i = j + 1
			} else {
				t.Bad = append(t.Bad, "ESC without [")
				i++
			}
		default:
			r, size := decodeRune(s[i:])
			t.put(s[i:i+size], runewidth.RuneWidth(r))
			i += size
		}
	}
}

func atoiDefault(s string, d int) int {
	if s == "" {
		return d
	}
	n := 0
	for _, c := range s {
		if c < '0' || c > '9' {
			return d
		}
		n = n*10 + int(c-'0')
	}
	return n
}

func decodeRune(s string) (rune, int) {
	r, n := utf8.DecodeRuneInString(s)
	if n == 0 {
		n = 1
	}
	return r, n
}

func rowText(r []cell) string {
	var sb strings.Builder
	for _, c := range r {
		if !c.cont {
			sb.WriteString(c.s)
		}
	}
	return sb.String()
}

// Lines returns every line from the start of the scrollback down to (not
// including) the cursor's line, followed by the cursor's line if not empty.
func (t *VT) Lines() []string {
	var out []string
	for i := 0; i < t.cy; i++ {
		out = append(out, rowText(t.rows[i]))
	}
	if len(t.rows[t.cy]) > 0 {
		out = append(out, rowText(t.rows[t.cy]))
	}
	return out
}

// Top is the index (in Lines) of the first line still on the screen.
func (t *VT) Top() int { return t.top }

// CursorRow is the absolute row index of the cursor.
func (t *VT) CursorRow() int { return t.cy }
