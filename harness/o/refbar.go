// Package o is the out-of-simulation half of the harness: scenario
// generators, history extraction, reference models, the terminal emulator,
// the oracles and the minimiser. Nothing in here is instrumented.
package o

import "github.com/vbauerster/mpb/v8/zzverif/h"

// RefBar is the sequential reference model of a bar, written from the doc
// comments of the public API (not from the implementation).
type RefBar struct {
	Total, Current, Refill int64
	Trigger                bool
	Completed, Aborted     bool
	Drop                   bool
}

// NewRefBar returns the model of a bar created with the given total.
func NewRefBar(total int64) RefBar { return RefBar{Total: total, Trigger: total > 0} }

// Terminal reports whether the bar has completed or was aborted.
func (b *RefBar) Terminal() bool { return b.Completed || b.Aborted }

func (b *RefBar) check() {
	if b.Trigger && b.Current >= b.Total {
		b.Current = b.Total
		b.Completed = true
	}
}

// Apply applies a mutator; ops that are not mutators are ignored.
func (b *RefBar) Apply(op h.Op) {
	if b.Terminal() {
		// a finished bar stays as it is (C11); what the live actor does with a
		// late mutator is judged by C11's monitor, not by this model
		return
	}
	switch op.K {
	case h.OpIncr, h.OpEwmaIncr:
		b.Current += op.N
		b.check()
	case h.OpIncrBy, h.OpEwmaIncrBy:
		b.Current += int64(int(op.N))
		b.check()
	case h.OpIncrement, h.OpEwmaIncrement:
		b.Current++
		b.check()
	case h.OpSetCurrent, h.OpEwmaSetCurrent:
		if op.N < 0 {
			return
		}
		b.Current = op.N
		b.check()
	case h.OpSetTotal:
		if b.Trigger {
			return
		}
		if op.N < 0 {
			b.Total = b.Current
		} else {
			b.Total = op.N
		}
		if op.Flag {
			b.Current = b.Total
			b.Trigger = true
			b.Completed = true
		}
	case h.OpEnableTrigger:
		if b.Trigger {
			return
		}
		b.Trigger = true
		b.check()
	case h.OpSetRefill:
		if op.N < b.Current {
			b.Refill = op.N
		} else {
			b.Refill = b.Current
		}
	case h.OpAbort:
		if b.Completed || b.Aborted {
			return
		}
		b.Aborted = true
		b.Drop = op.Flag
	}
}

// IsMutator reports whether the op changes bar state.
func IsMutator(k int) bool {
	switch k {
	case h.OpIncr, h.OpIncrBy, h.OpIncrement, h.OpEwmaIncr, h.OpEwmaIncrBy, h.OpEwmaIncrement, h.OpSetCurrent, h.OpEwmaSetCurrent,
		h.OpSetTotal, h.OpEnableTrigger, h.OpSetRefill, h.OpAbort:
		return true
	}
	return false
}
