package o

import (
	"math"
	"strings"
	"github.com/vbauerster/mpb/v8/decor"
	"github.com/vbauerster/mpb/v8/zzverif/h"
)

// Rand is a splitmix64 stream; every generated choice comes from one of these.
type Rand struct{ s uint64 }

func NewRand(seed uint64) *Rand { return &Rand{s: seed ^ 0x9e3779b97f4a7c15} }

func (r *Rand) Next() uint64 {
	r.s += 0x9e3779b97f4a7c15
	z := r.s
	z = (z ^ (z >> 30)) * 0xbf58476d1ce4e5b9
	z = (z ^ (z >> 27)) * 0x94d049bb133111eb
	return z ^ (z >> 31)
}

func (r *Rand) Intn(n int) int {
	if n <= 1 {
		return 0
	}
	return int(r.Next() % uint64(n))
}
func (r *Rand) Int63n(n int64) int64 {
	if n <= 1 {
		return 0
	}
	return int64(r.Next() % uint64(n))
}
func (r *Rand) Float() float64      { return float64(r.Next()>>11) / (1 << 53) }
func (r *Rand) Bool(p float64) bool { return r.Float() < p }
func (r *Rand) Range(lo, hi int) int {
	if hi <= lo {
		return lo
	}
	return lo + r.Intn(hi-lo+1)
}

// Weighted returns an index drawn with the given weights.
func (r *Rand) Weighted(w ...int) int {
	t := 0
	for _, x := range w {
		t += x
	}
	if t <= 0 {
		return 0
	}
	k := r.Intn(t)
	for i, x := range w {
		if k < x {
			return i
		}
		k -= x
	}
	return len(w) - 1
}

// Profile holds the knobs of the general generator; each property biases it
// towards its own hazard.
type Profile struct {
	Prop                                                                       string
	MinBars, MaxBars                                                           int
	MaxClients                                                                 int
	MaxOps                                                                     int
	RefreshW                                                                   [3]int // auto, manual, none
	PSmallQueue                                                                float64
	PSync                                                                      float64
	MaxDecs                                                                    int
	PWrap                                                                      float64
	PListener, PEwma                                                           float64
	PBuiltin                                                                   float64
	PPop, PRm, PNoPop                                                          float64
	PTerminal                                                                  float64
	PTightTerm                                                                 float64 // terminal height around the number of rows
	PNarrow                                                                    float64 // narrow widths (rows get truncated)
	PDelay                                                                     float64
	PNotifier                                                                  float64
	PUserWG                                                                    float64
	WWrite, WPrio, WGet, WRefill, WSleep, WRefresh, WIncr, WSet, WEwma, WTotal, WLateAbort int
	PQueueAfter                                                                float64
	PExt                                                                       float64
	PAbortFinish                                                               float64
	PDropOnAbort                                                               float64
	PLate                                                                      float64
	PClientAdd                                                                 float64
	PShared                                                                    float64
	PCancelEnd                                                                 float64
	PPostTerminalOps                                                           float64
	PZeroTotal                                                                 float64
	PExplicitPrio                                                              float64
	PLazy                                                                      float64
	PJoin                                                                      float64
	PManualRefresher                                                           float64
	PResize                                                                    float64
	FixedWidth                                                                 int
	PrioAfterFinish                                                            bool    // allow priority changes on finished bars (see finding F8)
	PReaders                                                                   float64 // extra clients polling getters of bars added up front
	PRacer                                                                     float64 // an extra client aborting another client's bar
	NoSpinner                                                                  bool
	StrategyW                                                                  [4]int // random, rtb, pct, starve
}

// DefaultProfile is the base profile.
func DefaultProfile(prop string) Profile {
	return Profile{Prop: prop, MinBars: 1, MaxBars: 5, MaxClients: 3, MaxOps: 12, RefreshW: [3]int{6, 2, 1}, PSmallQueue: 0.15, PSync: 0.4, MaxDecs: 2,
		PWrap: 0.3, PListener: 0.2, PEwma: 0.15, PBuiltin: 0.1, PPop: 0.2, PRm: 0.2, PNoPop: 0.2, PTerminal: 0.3, PDelay: 0.1, PNotifier: 0.3, PUserWG: 0.15,
		WWrite: 2, WPrio: 2, WGet: 3, WRefill: 1, WSleep: 3, WRefresh: 4, WIncr: 8, WSet: 2, WEwma: 2, WTotal: 1, WLateAbort: 3,
		PQueueAfter: 0.0, PExt: 0.2, PAbortFinish: 0.25, PDropOnAbort: 0.4, PLate: 0.2, PClientAdd: 0.4, PCancelEnd: 0, PPostTerminalOps: 0.1,
		PZeroTotal: 0.25, PExplicitPrio: 0.3, PLazy: 0.5, PJoin: 0.2, PManualRefresher: 0.8, StrategyW: [4]int{3, 3, 1, 3}, PrioAfterFinish: true}
}

var refreshRates = []int64{1e6, 1e7, 15e7, 1e9, 3600e9}

// genSleep draws a sleep of at most a dozen refresh periods: every elapsed
// period costs a render cycle of simulation.
func genSleep(r *Rand, c *h.ContainerSpec) int64 {
	period := c.RateNS
	if c.Refresh != h.RefAuto || period == 0 {
		period = 2e7
	}
	if period > 1e9 {
		period = 1e9
	}
	return []int64{1e3, period / 2, 2 * period, 12 * period}[r.Intn(4)]
}

func genSched(r *Rand, p *Profile) h.SchedSpec {
	s := h.SchedSpec{}
	switch r.Weighted(p.StrategyW[:]...) {
	case 0:
		s.Strategy = "random"
	case 1:
		s.Strategy = "rtb"
		s.PPreempt = []float64{0.02, 0.1, 0.3}[r.Intn(3)]
	case 2:
		s.Strategy = "pct"
		s.PCTDepth = r.Range(1, 5)
	case 3:
		s.Strategy = "starve"
		s.PPreempt = []float64{0.05, 0.2, 0.5}[r.Intn(3)]
		s.StarvePct = []int{15, 30, 50}[r.Intn(3)]
		s.StarveMax = []int{5, 20, 80, 300}[r.Intn(4)]
	}
	s.PTick = []float64{0, 0.002, 0.01, 0.05}[r.Intn(4)]
	return s
}

var syncFlagSets = []int{decor.DSyncWidth, decor.DSyncWidthR, decor.DSyncSpace, decor.DSyncSpaceR}
var plainFlagSets = []int{0, decor.DindentRight, decor.DextraSpace, decor.DextraSpace | decor.DindentRight}

// genPrio picks a bar priority: mostly small numbers that collide with the default ones (the bar
// ids), sometimes the ends of the range a program may use to pin a bar ("always last": MaxInt).
func genPrio(r *Rand, nb int) int {
	if r.Bool(0.12) {
		return []int{math.MaxInt64, math.MaxInt64 - 1, math.MaxInt64 - 1<<31 + 3, math.MaxInt32, -1, -7, 1 << 40}[r.Intn(7)]
	}
	return r.Range(0, nb+1)
}

func genDec(r *Rand, p *Profile, sync bool) h.DecSpec {
	if r.Bool(0.04) {
		return h.DecSpec{Kind: h.DecNil, Style: r.Intn(3)}
	}
	d := h.DecSpec{Kind: h.DecProbe, Text: r.Intn(len(h.Texts)), Vary: r.Weighted(3, 2, 2)}
	if r.Bool(0.1) {
		d.Cond = r.Range(1, 4)
	}
	if r.Bool(0.03) {
		// slow, but healthy: one call takes seconds (a decorator that looks something up)
		d.Slow, d.SlowNS = r.Range(1, 4), []int64{1500e6, 4e9}[r.Intn(2)]
	}
	if r.Bool(0.4) {
		d.W = r.Range(0, 14)
	}
	if sync {
		d.C = syncFlagSets[r.Intn(len(syncFlagSets))]
		d.PreInit = r.Bool(0.25)
	} else {
		d.C = plainFlagSets[r.Intn(len(plainFlagSets))]
	}
	if r.Bool(p.PWrap) {
		for n := r.Range(1, 3); n > 0; n-- {
			d.Wrap = append(d.Wrap, r.Intn(7))
		}
	}
	d.Listener = r.Bool(p.PListener)
	d.Ewma = r.Bool(p.PEwma)
	if r.Bool(p.PBuiltin) {
		d.Kind = []int{h.DecElapsed, h.DecAvgSpeed, h.DecAvgETA, h.DecEwmaSpeed, h.DecEwmaETA, h.DecCounters, h.DecPercentage, h.DecName, h.DecTotal, h.DecCurrent}[r.Intn(10)]
		d.Style = r.Intn(4)
		d.Fmt = []string{"", "%d", "% d", "%.1f", "% .2f"}[r.Intn(5)]
		if d.Kind == h.DecCounters {
			d.Fmt = []string{"", "%d / %d", "% .1f / % .1f"}[r.Intn(3)]
		}
		d.Listener, d.Ewma = false, false
	}
	if d.Listener && r.Bool(0.3) {
		d.ShutGet = true // a listener that reports its bar's state when it is shut down
	}
	return d
}

// barGen carries per-bar generation state.
type barGen struct {
	idx   int
	model RefBar
	added bool
}

// GenBase generates a scenario from a profile.
func GenBase(r *Rand, p *Profile) *h.Scenario {
	sc := &h.Scenario{Prop: p.Prop}
	nb := r.Range(p.MinBars, p.MaxBars)
	nc := r.Range(1, p.MaxClients)
	c := &sc.Cont
	c.Refresh = r.Weighted(p.RefreshW[:]...)
	if c.Refresh == h.RefAuto {
		c.RateNS = refreshRates[r.Intn(len(refreshRates))]
	}
	c.QueueLen = -1
	if r.Bool(p.PSmallQueue) && nb > 0 {
		c.QueueLen = []int{0, 1, 2, nb - 1}[r.Intn(4)]
		if c.QueueLen >= nb {
			c.QueueLen = nb - 1
		}
	} else {
		c.QueueLen = []int{-1, nb, nb + 1, 128}[r.Intn(4)]
	}
	c.Pop = r.Bool(p.PPop)
	c.Delay = r.Bool(p.PDelay)
	if r.Bool(p.PNotifier) {
		c.Notifier = 1 + r.Intn(2)
	}
	c.UserWG = r.Bool(p.PUserWG)
	wide := 200
	if p.FixedWidth > 0 {
		wide = p.FixedWidth
	}
	narrow := r.Bool(p.PNarrow) && !c.Pop // rows must stay attributable to track pops
	if narrow {
		wide = r.Range(1, 40)
	}
	// bars
	rows := 0
	for i := 0; i < nb; i++ {
		b := h.BarSpec{QueueAfter: -1}
		if r.Bool(p.PZeroTotal) {
			b.Total = []int64{0, 0, -1}[r.Intn(3)]
		} else {
			b.Total = int64(r.Range(1, 60))
		}
		if r.Bool(p.PExplicitPrio) {
			b.HasPrio, b.Prio = true, genPrio(r, nb)
		}
		b.RmOnComp = r.Bool(p.PRm)
		b.NoPop = r.Bool(p.PNoPop)
		b.Trim = r.Bool(0.2)
		if r.Bool(0.2) {
			b.OptVariant = r.Range(1, 60)
		}
		b.FillOnComplete = r.Bool(0.2)
		b.FillOnAbort = r.Bool(0.2)
		if r.Bool(0.15) && !narrow {
			b.Width = r.Range(30, wide) // BarWidth overrides the container's width for this bar
			if r.Bool(0.25) {
				b.Width = r.Range(1, 4) // narrower than an on-complete / on-abort filler message (which takes the room the row has, not the bar's width)
			}
		}
		b.Filler = r.Weighted(4, 1, 1, 3)
		if p.NoSpinner && b.Filler == h.FillSpinner {
			b.Filler = h.FillBar
		}
		if r.Bool(p.PExt) && !narrow {
			b.ExtRows = r.Range(1, 3)
			b.ExtNoNL = r.Bool(0.25)
			b.ExtRev = r.Bool(0.4)
		}
		rows += 1 + b.ExtRows
		for k, n := 0, r.Intn(p.MaxDecs+1); k < n; k++ {
			b.Pre = append(b.Pre, genDec(r, p, r.Bool(p.PSync)))
		}
		for k, n := 0, r.Intn(p.MaxDecs+1); k < n; k++ {
			b.App = append(b.App, genDec(r, p, r.Bool(p.PSync)))
		}
		if r.Bool(0.04) {
			b.QueueAfter = -2 // BarQueueAfter(nil): not queued
		}
		if i > 0 && r.Bool(p.PQueueAfter) {
			b.QueueAfter = r.Intn(i)
		}
		sc.Bars = append(sc.Bars, b)
	}
	if r.Bool(p.PTerminal) {
		c.Terminal = true
		c.TermW = wide
		c.TermH = rows + 2 + r.Intn(4)
		if r.Bool(p.PTightTerm) {
			c.TermH = r.Range(1, rows+2)
			if r.Bool(0.08) {
				c.TermH = 0 // a pseudo terminal whose size has not been set yet reports 0 rows
			}
		}
		if r.Bool(p.PResize) {
			// the terminal only grows: rows drawn before a shrink (or re-wrapped by a
			// narrower width) are beyond the reach of any program
			at, w, hh := 1, c.TermW, c.TermH
			for k, n := 0, r.Range(1, 3); k < n; k++ {
				at += r.Range(1, 6)
				w += r.Intn(3) * r.Intn(12)
				hh += r.Intn(4)
				c.Resizes = append(c.Resizes, h.Resize{AtQuery: at, W: w, H: hh})
			}
		}
		if r.Bool(0.3) {
			c.Width = r.Range(10, wide)
			if !narrow {
				c.Width = wide - r.Intn(20)
			}
		}
	} else {
		c.Width = wide
	}
	// ownership
	owner := make([]int, nb)
	bg := make([]*barGen, nb)
	for i := range owner {
		owner[i] = r.Intn(nc)
		if sc.Bars[i].QueueAfter >= 0 {
			owner[i] = owner[sc.Bars[i].QueueAfter]
		}
		bg[i] = &barGen{idx: i, model: NewRefBar(sc.Bars[i].Total)}
	}
	clientAdds := make([][]int, nc)
	for i := 0; i < nb; i++ {
		if q := sc.Bars[i].QueueAfter; r.Bool(p.PClientAdd) || (q >= 0 && !bg[q].added) {
			clientAdds[owner[i]] = append(clientAdds[owner[i]], i)
		} else {
			sc.Initial = append(sc.Initial, i)
			bg[i].added = true
		}
	}
	sc.Clients = make([][]h.Op, nc)
	nWrites := 0
	for ci := 0; ci < nc; ci++ {
		var ops []h.Op
		var own []*barGen
		var waitLater []int
		for i := 0; i < nb; i++ {
			if owner[i] == ci {
				own = append(own, bg[i])
			}
		}
		pending := clientAdds[ci]
		liveCount := func() int {
			n := 0
			for _, b := range own {
				if b.added && !b.model.Terminal() {
					n++
				}
			}
			return n
		}
		tryAdd := func() {
			if len(pending) > 0 && liveCount() > 0 {
				// a successor created after its predecessor has finished is the open finding F4b
				// (C17 owns that history): elsewhere such a bar is created as an ordinary one
				if q := sc.Bars[pending[0]].QueueAfter; q >= 0 && bg[q].model.Terminal() {
					sc.Bars[pending[0]].QueueAfter = -1
				}
				ops = append(ops, h.Op{K: h.OpAdd, Bar: pending[0]})
				bg[pending[0]].added = true
				pending = pending[1:]
			}
		}
		budget := r.Range(0, p.MaxOps)
		for k := 0; k < budget; k++ {
			if len(pending) > 0 && r.Bool(0.3) {
				tryAdd()
				continue
			}
			var cand []*barGen
			for _, b := range own {
				if b.added && (!b.model.Terminal() || r.Bool(p.PPostTerminalOps)) {
					cand = append(cand, b)
				}
			}
			op, ok := genOp(r, p, sc, cand, ci, &nWrites)
			if ok {
				ops = append(ops, op)
			}
		}
		for len(pending) > 0 {
			if liveCount() > 0 {
				tryAdd()
			} else {
				// cannot be added validly by the client: main adds it up front
				sc.Initial = append(sc.Initial, pending[0])
				bg[pending[0]].added = true
				pending = pending[1:]
			}
		}
		// finishers, in random order
		perm := make([]int, len(own))
		for i := range perm {
			perm[i] = i
		}
		for i := len(perm) - 1; i > 0; i-- {
			j := r.Intn(i + 1)
			perm[i], perm[j] = perm[j], perm[i]
		}
		for _, k := range perm {
			b := own[k]
			if !b.added || b.model.Terminal() {
				continue
			}
			ops = append(ops, genFinisher(r, p, b)...)
			if r.Bool(0.2) {
				// a queued bar cannot shut down before its predecessor has: wait for it only
				// after every finisher has been issued
				if sc.Bars[b.idx].QueueAfter >= 0 {
					waitLater = append(waitLater, b.idx)
				} else {
					ops = append(ops, h.Op{K: h.OpBarWait, Bar: b.idx})
				}
			}
			if r.Bool(p.PPostTerminalOps) {
				if op, ok := genOp(r, p, sc, []*barGen{b}, ci, &nWrites); ok {
					ops = append(ops, op)
				}
			}
		}
		for _, b := range waitLater {
			ops = append(ops, h.Op{K: h.OpBarWait, Bar: b})
		}
		sc.Clients[ci] = ops
	}
	sortInts(sc.Initial)
	// readers: poll getters of bars that exist before the clients start, through
	// completion, shutdown and beyond
	if len(sc.Initial) > 0 && r.Bool(p.PReaders) {
		for n := r.Range(1, 2); n > 0; n-- {
			var ops []h.Op
			for k, m := 0, r.Range(3, 14); k < m; k++ {
				b := sc.Initial[r.Intn(len(sc.Initial))]
				ops = append(ops, h.Op{K: []int{h.OpCurrent, h.OpCompleted, h.OpAborted, h.OpPair, h.OpPairAC, h.OpIsRunning, h.OpID}[r.Intn(7)], Bar: b})
				if r.Bool(0.4) {
					ops = append(ops, h.Op{K: h.OpSleep, D: genSleep(r, &sc.Cont)})
				}
			}
			sc.Clients = append(sc.Clients, ops)
		}
	}
	if len(sc.Initial) > 0 && r.Bool(p.PRacer) {
		var ops []h.Op
		if r.Bool(0.5) {
			ops = append(ops, h.Op{K: h.OpSleep, D: genSleep(r, &sc.Cont)})
		}
		b := sc.Initial[r.Intn(len(sc.Initial))]
		ops = append(ops, h.Op{K: h.OpAbort, Bar: b, Flag: r.Bool(p.PDropOnAbort)})
		if r.Bool(0.5) {
			ops = append(ops, h.Op{K: h.OpPair, Bar: b})
		}
		sc.Clients = append(sc.Clients, ops)
	}
	// manual refresher client
	if c.Refresh == h.RefManual && r.Bool(p.PManualRefresher) {
		var ops []h.Op
		for k, n := 0, r.Range(2, 12); k < n; k++ {
			ops = append(ops, h.Op{K: h.OpRefresh, Flag: r.Bool(0.3)})
			if r.Bool(0.7) {
				ops = append(ops, h.Op{K: h.OpSleep, D: int64(r.Range(1, 50)) * 1e6})
			}
		}
		sc.Clients = append(sc.Clients, ops)
	}
	// main
	if c.Delay && r.Bool(0.8) {
		if r.Bool(0.5) {
			sc.Main = append(sc.Main, h.Op{K: h.OpSleep, D: genSleep(r, c)})
		}
		sc.Main = append(sc.Main, h.Op{K: h.OpCloseDelay})
	}
	if r.Bool(0.3) {
		sc.Main = append(sc.Main, h.Op{K: h.OpSleep, D: genSleep(r, c)})
	}
	if r.Bool(p.PJoin) {
		sc.Main = append(sc.Main, h.Op{K: h.OpJoin})
	}
	if r.Bool(p.PLate) {
		for k, n := 0, r.Range(1, 5); k < n; k++ {
			var cand []*barGen
			for _, b := range bg {
				if b.added {
					cand = append(cand, b)
				}
			}
			if op, ok := genOp(r, p, sc, cand, -2, &nWrites); ok {
				sc.Post = append(sc.Post, op)
			}
		}
	}
	sc.Sched = genSched(r, p)
	return sc
}

func sortInts(a []int) {
	for i := 1; i < len(a); i++ {
		for j := i; j > 0 && a[j] < a[j-1]; j-- {
			a[j], a[j-1] = a[j-1], a[j]
		}
	}
}

// UserLine is the text of the k-th line written through the container by a client.
func UserLine(client, k int, body string) string {
	return "U" + itoa(client+3) + "." + itoa(k) + ":" + body + "\n"
}

func itoa(n int) string {
	if n == 0 {
		return "0"
	}
	neg := n < 0
	if neg {
		n = -n
	}
	var b [20]byte
	i := len(b)
	for n > 0 {
		i--
		b[i] = byte('0' + n%10)
		n /= 10
	}
	if neg {
		i--
		b[i] = '-'
	}
	return string(b[i:])
}

var lineBodies = []string{"", "x", "hello world", "世界", "a-b-c-d-e-f", "12345678901234567890"}

// genOp generates one non-finishing operation for a client.
func genOp(r *Rand, p *Profile, sc *h.Scenario, cand []*barGen, client int, nWrites *int) (h.Op, bool) {
	wRefresh := 0
	if sc.Cont.Refresh == h.RefManual {
		wRefresh = p.WRefresh
	}
	kind := r.Weighted(p.WIncr, p.WSet, p.WEwma, p.WRefill, p.WGet, p.WPrio, p.WWrite, p.WSleep, wRefresh, p.WTotal, p.WLateAbort)
	needBar := kind <= 5 || kind >= 9
	var b *barGen
	if needBar {
		if len(cand) == 0 {
			return h.Op{}, false
		}
		b = cand[r.Intn(len(cand))]
	}
	var op h.Op
	switch kind {
	case 0: // increments that do not finish the bar (finishers do that)
		room := int64(1 << 30)
		if b.model.Trigger {
			room = b.model.Total - b.model.Current - 1
		}
		if b.model.Terminal() {
			room = 5
		}
		if room <= 0 {
			return h.Op{}, false
		}
		n := 1 + r.Int63n(min64(room, 9))
		op = h.Op{K: []int{h.OpIncr, h.OpIncrBy, h.OpIncrement}[r.Intn(3)], Bar: b.idx, N: n}
		if op.K == h.OpIncrement {
			op.N = 1
		}
	case 1:
		hi := int64(50)
		if b.model.Trigger {
			hi = b.model.Total - 1
		}
		if hi < 0 {
			return h.Op{}, false
		}
		op = h.Op{K: h.OpSetCurrent, Bar: b.idx, N: r.Int63n(hi + 1)}
		if b.model.Terminal() {
			// the properties only speak about non-decreasing updates of a finished bar
			op.N = b.model.Current + r.Int63n(4)
		}
	case 2:
		room := int64(1 << 30)
		if b.model.Trigger {
			room = b.model.Total - b.model.Current - 1
		}
		if b.model.Terminal() {
			room = 5
		}
		if room <= 0 {
			return h.Op{}, false
		}
		op = h.Op{K: []int{h.OpEwmaIncr, h.OpEwmaIncrBy, h.OpEwmaIncrement}[r.Intn(3)], Bar: b.idx, N: 1 + r.Int63n(min64(room, 9)), D: int64(r.Range(0, 5000)) * 1e3}
		if op.K == h.OpEwmaIncrement {
			op.N = 1
		}
	case 3:
		op = h.Op{K: h.OpSetRefill, Bar: b.idx, N: r.Int63n(70)}
	case 4:
		op = h.Op{K: []int{h.OpCurrent, h.OpCompleted, h.OpAborted, h.OpPair, h.OpPairAC, h.OpIsRunning, h.OpID, h.OpTraverse}[r.Intn(8)], Bar: b.idx}
	case 5:
		if b.model.Terminal() && !p.PrioAfterFinish {
			return h.Op{}, false
		}
		if r.Bool(0.5) {
			op = h.Op{K: h.OpSetPriority, Bar: b.idx, N: int64(genPrio(r, len(sc.Bars)))}
		} else {
			op = h.Op{K: h.OpUpdatePriority, Bar: b.idx, N: int64(genPrio(r, len(sc.Bars))), Flag: r.Bool(p.PLazy)}
		}
	case 6:
		*nWrites++
		s := UserLine(client, *nWrites, lineBodies[r.Intn(len(lineBodies))])
		if r.Bool(0.2) {
			*nWrites++
			s += UserLine(client, *nWrites, lineBodies[r.Intn(len(lineBodies))])
		}
		if r.Bool(0.06) {
			// a whole paragraph in one call
			for k, n := 0, r.Range(2, 8); k < n; k++ {
				*nWrites++
				s += UserLine(client, *nWrites, lineBodies[r.Intn(len(lineBodies))])
			}
		}
		if r.Bool(0.03) {
			// more than 4 KiB in one call
			long := "long-" + strings.Repeat("0123456789", 8)
			for len(s) < 4200 {
				*nWrites++
				s += UserLine(client, *nWrites, long)
			}
		}
		if r.Bool(0.012) && !sc.Cont.Terminal {
			// more than 32 KiB in one call (other clients may be writing at the same time)
			long := "huge-" + strings.Repeat("0123456789", 8)
			for len(s) < 34000 {
				*nWrites++
				s += UserLine(client, *nWrites, long)
			}
		}
		if r.Bool(0.04) {
			s = "" // an empty Write is a valid io.Writer call
		}
		op = h.Op{K: h.OpWrite, S: s}
	case 7:
		op = h.Op{K: h.OpSleep, D: genSleep(r, &sc.Cont)}
	case 8:
		op = h.Op{K: h.OpRefresh, Flag: r.Bool(0.3)}
	case 9:
		// SetTotal without completing (dynamic totals only)
		if b.model.Trigger {
			// once triggering is on the call is valid and ignored: a late size correction, larger or
			// negative, with or without the complete flag
			if !r.Bool(0.4) {
				return h.Op{}, false
			}
			op = h.Op{K: h.OpSetTotal, Bar: b.idx, N: []int64{b.model.Total + 1 + r.Int63n(40), -1, b.model.Current}[r.Intn(3)], Flag: r.Bool(0.3)}
			break
		}
		op = h.Op{K: h.OpSetTotal, Bar: b.idx, N: b.model.Current + 1 + r.Int63n(40)}
	case 10:
		// Abort on a bar that has already finished: a valid call without effect (the usual deferred clean-up)
		if !b.model.Terminal() {
			return h.Op{}, false
		}
		op = h.Op{K: h.OpAbort, Bar: b.idx, Flag: r.Bool(0.5)}
	}
	if b != nil {
		b.model.Apply(op)
	}
	return op, true
}

func min64(a, b int64) int64 {
	if a < b {
		return a
	}
	return b
}

// genFinisher returns operations after which the bar is certainly terminal.
func genFinisher(r *Rand, p *Profile, b *barGen) []h.Op {
	var ops []h.Op
	m := &b.model
	if r.Bool(p.PAbortFinish) {
		ops = append(ops, h.Op{K: h.OpAbort, Bar: b.idx, Flag: r.Bool(p.PDropOnAbort)})
	} else if m.Trigger {
		switch r.Intn(3) {
		case 0:
			ops = append(ops, h.Op{K: h.OpIncr, Bar: b.idx, N: m.Total - m.Current + r.Int63n(3)})
		case 1:
			ops = append(ops, h.Op{K: h.OpSetCurrent, Bar: b.idx, N: m.Total + r.Int63n(2)})
		case 2:
			for k := m.Current; k < m.Total && len(ops) < 6; k++ {
				ops = append(ops, h.Op{K: h.OpIncrement, Bar: b.idx})
			}
			ops = append(ops, h.Op{K: h.OpIncr, Bar: b.idx, N: m.Total})
		}
	} else {
		switch r.Intn(3) {
		case 0:
			ops = append(ops, h.Op{K: h.OpSetTotal, Bar: b.idx, N: -1, Flag: true})
		case 1:
			ops = append(ops, h.Op{K: h.OpSetTotal, Bar: b.idx, N: m.Current + r.Int63n(20), Flag: true})
		case 2:
			if m.Current < m.Total {
				ops = append(ops, h.Op{K: h.OpSetCurrent, Bar: b.idx, N: m.Total})
			}
			ops = append(ops, h.Op{K: h.OpEnableTrigger, Bar: b.idx})
		}
	}
	for _, op := range ops {
		m.Apply(op)
	}
	if !m.Terminal() {
		op := h.Op{K: h.OpAbort, Bar: b.idx}
		m.Apply(op)
		ops = append(ops, op)
	}
	return ops
}
