package o

import (
	"fmt"
	"strings"

	"verif/sim/simrt"

	"github.com/vbauerster/mpb/v8/zzverif/h"
)

// OpRec is one client operation with its position in the history.
type OpRec struct {
	Client, Idx int
	Op          h.Op
	Inv, Ret    int // log indices; Ret = -1 if the call never returned
	R           int64
	RS          string
}

// WriteRec is one Write call on the output.
type WriteRec struct {
	At      int // log index
	Payload []byte
	N       int64
	Err     string
}

// Hist is the structured history of one run.
type Hist struct {
	Sc       *h.Scenario
	Res      *simrt.Result
	Log      []simrt.Entry
	Ops      []*OpRec
	Writes   []WriteRec
	WaitIn   int
	WaitOut  int
	EndAt    int
	Finals   map[int]h.FinalRec
	Debug    []string
	Added    map[int]*OpRec // bar index -> successful Add
	Faults   map[string]int
	InjectAt int // log index of the injected cancel (-1)
}

// BuildHist extracts the structured history from a run's log.
func BuildHist(sc *h.Scenario, res *simrt.Result) *Hist {
	hi := &Hist{Sc: sc, Res: res, Log: res.Log, WaitIn: -1, WaitOut: -1, EndAt: -1, Finals: map[int]h.FinalRec{}, Added: map[int]*OpRec{},
		Faults: map[string]int{}, InjectAt: -1}
	open := map[[2]int]*OpRec{}
	for i := range res.Log {
		e := &res.Log[i]
		switch e.Kind {
		case h.EvInvoke:
			op := &OpRec{Client: e.ID, Idx: int(e.A), Op: e.V.(h.Op), Inv: i, Ret: -1}
			hi.Ops = append(hi.Ops, op)
			open[[2]int{e.ID, int(e.A)}] = op
		case h.EvReturn:
			if op := open[[2]int{e.ID, int(e.A)}]; op != nil {
				op.Ret, op.R, op.RS = i, e.B, e.S
				delete(open, [2]int{e.ID, int(e.A)})
				if op.Op.K == h.OpAdd && op.RS == "" {
					hi.Added[op.Op.Bar] = op
				}
			}
		case h.EvWrite:
			hi.Writes = append(hi.Writes, WriteRec{At: i, Payload: e.V.([]byte), N: e.B, Err: e.S})
		case h.EvWaitIn:
			if hi.WaitIn < 0 {
				hi.WaitIn = i
			}
		case h.EvWaitOut:
			if hi.WaitOut < 0 {
				hi.WaitOut = i
			}
		case h.EvEnd:
			hi.EndAt = i
		case h.EvFinal:
			hi.Finals[e.ID] = e.V.(h.FinalRec)
		case h.EvDebug:
			hi.Debug = append(hi.Debug, e.S)
		case h.EvFault:
			hi.Faults[e.S]++
			if e.S == "inject" {
				hi.InjectAt = i
			}
		}
	}
	return hi
}

// Violation is the verdict of an oracle on one run.
type Violation struct {
	Prop   string `json:"prop"`
	Oracle string `json:"oracle"`
	Msg    string `json:"msg"`
	Known  string `json:"known,omitempty"` // id of the matching open known finding
}

func (v *Violation) String() string { return fmt.Sprintf("[%s/%s] %s", v.Prop, v.Oracle, v.Msg) }

func viol(prop, oracle, f string, a ...interface{}) *Violation {
	return &Violation{Prop: prop, Oracle: oracle, Msg: fmt.Sprintf(f, a...)}
}

// libSite reports whether a goroutine creation site lies in the library
// (rewritten mpb packages) rather than in the harness.
func libSite(site string) bool {
	if site == "main" {
		return false
	}
	for _, p := range []string{"zz_", "afterfunc@", "canceller"} {
		if strings.HasPrefix(site, p) {
			return false
		}
	}
	return true
}

// describeLive renders the parked goroutines of a result.
func describeLive(res *simrt.Result) string { return simrt.FormatLive(res.Live) }
