package o

import (
	"encoding/json"
	"os"
	"strings"

	"verif/sim/simrt"

	"github.com/vbauerster/mpb/v8/zzverif/h"
)

// KnownFinding is one entry of /verif/known_findings.json.
type KnownFinding struct {
	ID         string   `json:"id"`
	Status     string   `json:"status"` // open | fixed
	Properties []string `json:"properties"`
	Signature  string   `json:"signature"`
	What       string   `json:"what"`
	Commit     string   `json:"commit,omitempty"`
}

var openFindings []KnownFinding

// LoadKnown reads the known-findings file; only open entries are kept. The
// file is never written at run time.
func LoadKnown(path string) {
	openFindings = nil
	if path == "" {
		return
	}
	data, err := os.ReadFile(path)
	if err != nil {
		return
	}
	var f struct {
		Findings []KnownFinding `json:"findings"`
	}
	if json.Unmarshal(data, &f) != nil {
		return
	}
	for _, k := range f.Findings {
		if k.Status == "open" {
			openFindings = append(openFindings, k)
		}
	}
}

// signatures: predicates over a failing run that identify the cause of an
// open finding. A violation that matches no open signature is reported.
var signatures = map[string]func(hi *Hist, v *Violation) bool{
	// F4b: a bar created with BarQueueAfter(p) after p's finishing operation had
	// returned is registered behind a predecessor whose hand-over frame may
	// already be past: it is never promoted, never rendered, never shut down.
	"late_successor": func(hi *Hist, v *Violation) bool {
		switch v.Oracle {
		case "wait-hang", "wait-deadlock", "never-displayed", "hang", "deadlock", "leak", "leak-spinning":
		default:
			return false
		}
		facts := Facts(hi)
		for _, bf := range facts {
			if !bf.Queued {
				continue
			}
			pred := facts[bf.Pred]
			// the hand-over happens in the cycle that renders the finished predecessor for the second
			// time; a successor whose Add request was served by the container before that render is
			// not a late one (requests and render cycles are served by the same goroutine)
			served, second, n := -1, -1, 0
			for i := range hi.Log {
				e := &hi.Log[i]
				if e.Kind == h.EvServed && e.ID == bf.Idx && served < 0 {
					served = i
				}
				if e.Kind == h.EvSpy && e.ID == pred.Idx {
					if rec := e.V.(h.SpyRec); rec.Completed || rec.Aborted {
						if n++; n == 2 && second < 0 {
							second = i
						}
					}
				}
			}
			if served >= 0 && second >= 0 && served < second && !pred.Spec.NoSpy {
				continue
			}
			if pred.TermAt >= 0 && bf.AddInv > pred.TermAt {
				// and that successor is indeed the one that was never shown
				shown := false
				for _, f := range ParseFrames(hi) {
					if f.Has(bf.Idx) {
						shown = true
					}
				}
				if !shown {
					return true
				}
			}
		}
		return false
	},
}

// MatchKnown returns the id of the open known finding whose signature matches
// the failing run, or "".
func MatchKnown(hi *Hist, v *Violation) string {
	for _, k := range openFindings {
		okProp := false
		for _, p := range k.Properties {
			if p == v.Prop {
				okProp = true
			}
		}
		if !okProp {
			continue
		}
		if sig := signatures[k.Signature]; sig != nil && sig(hi, v) {
			return k.ID
		}
	}
	return ""
}

// CountReach accumulates fault and reach-probe counters of a run.
func CountReach(hi *Hist, faults, probes map[string]int64) {
	res := hi.Res
	for k, n := range hi.Faults {
		faults[k] += int64(n)
	}
	faults["tick_during_work"] += res.TickDuringWork
	for _, n := range res.Starved {
		faults["class_starved"] += int64(n)
	}
	probes["select_multi_ready"] += res.SelMultiReady
	probes["tick_during_work"] += res.TickDuringWork
	probes["timer_fires"] += res.TimerFires
	probes["switch_pairs"] += int64(res.SwitchPairs)
	for k, n := range res.Marks {
		probes[k] += n
	}
	for site, n := range res.ClassCount {
		if n > 0 && strings.HasSuffix(site, ")") && libSite(site) {
			probes["go@"+site] += int64(n)
		}
	}
	if hi.WaitOut >= 0 {
		for _, op := range hi.Ops {
			if op.Inv > hi.WaitOut {
				probes["late_call"]++
				faults["late_call"]++
			} else if op.Ret > hi.WaitOut || op.Ret < 0 {
				probes["racing_done"]++
			}
		}
	}
	for _, op := range hi.Ops {
		switch op.Op.K {
		case h.OpCancel:
			faults["ctx_cancel"]++
		case h.OpShutdown:
			faults["shutdown_call"]++
		case h.OpCloseDelay:
			if op.R == 1 {
				faults["delay_close"]++
			}
		}
	}
	if hi.Sc.Cont.QueueLen >= 0 && hi.Sc.Cont.QueueLen < len(hi.Added) {
		probes["n_gt_q"]++
	}
	nsync := 0
	for _, b := range hi.Sc.Bars {
		for _, d := range b.Pre {
			if d.C&4 != 0 {
				nsync++
			}
		}
		for _, d := range b.App {
			if d.C&4 != 0 {
				nsync++
			}
		}
	}
	if nsync > 0 {
		probes["sync_decorators"]++
	}
	if hi.Sc.Serial > 1 {
		probes["serial_reuse"]++
	}
	if res.Outcome != simrt.OK {
		probes["outcome_"+res.Outcome.String()]++
	}
}

// OracleProbes counts how often oracle-side checks were actually exercised
// (reach probes of the oracles themselves); merged into the batch's probes.
var OracleProbes = map[string]int64{}

func note(name string) { OracleProbes[name]++ }
