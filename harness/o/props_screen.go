package o

import (
	"fmt"
	"strings"

	"verif/sim/simrt"

	"github.com/vbauerster/mpb/v8/zzverif/h"
)

func init() {
	register(&PropDef{ID: "C04", Gen: genC04, Judge: judgeC04, NonTrivial: func(hi *Hist) bool {
		return len(hi.Writes) >= 2 && len(hi.Added) >= 1
	}, Probes: []string{"frames_emulated", "tight_terminal", "silence_checked", "delay_checked"}})
}

func genC04(r *Rand, tier string, i int) *h.Scenario {
	p := DefaultProfile("C04")
	p.PTerminal = 0.7
	p.PTightTerm = 0.5
	p.PNarrow = 0.3
	p.PResize = 0.3
	p.PExt = 0.4
	p.PDelay = 0.15
	p.WWrite = 5
	p.PQueueAfter = 0.1 // wave 15 (s228): a finished bar with successors in pop mode, priority calls in between
	p.RefreshW = [3]int{5, 2, 2}
	p.PPop = 0.25
	p.NoSpinner = false
	if tier == "thorough" {
		p.MaxBars = 8
	}
	if r.Bool(0.015) {
		// a tall display: more than 99 rows, cursor-up counts of three digits
		p.MinBars, p.MaxBars, p.PExt, p.PTightTerm, p.PNarrow, p.MaxOps = 34, 44, 0.9, 0, 0, 4
	}
	if r.Bool(0.04) {
		return genAnonPipeline(r, "C04")
	}
	return GenBase(r, &p)
}

// genAnonPipeline: bars that look exactly alike (no label, same total) finish one per render cycle
// while a new one joins each cycle - consecutive frames are byte for byte the same although a bar
// is popped (or removed) by each of them.
func genAnonPipeline(r *Rand, prop string) *h.Scenario {
	sc := &h.Scenario{Prop: prop}
	c := &sc.Cont
	c.Anon = true
	c.Pop = r.Bool(0.8)
	c.Refresh = h.RefManual
	if r.Bool(0.3) {
		c.Refresh = h.RefAuto
		c.RateNS = refreshRates[r.Intn(3)]
	}
	c.QueueLen = -1
	if r.Bool(0.5) {
		c.Terminal, c.TermW, c.TermH = true, 100, r.Range(12, 30)
	} else {
		c.Width = 100
	}
	n := r.Range(3, 7)
	tot := int64(r.Range(1, 5))
	var ops []h.Op
	for b := 0; b < n; b++ {
		sc.Bars = append(sc.Bars, h.BarSpec{Total: tot, QueueAfter: -1, Filler: h.FillProbe, RmOnComp: !c.Pop && r.Bool(0.5)})
		ops = append(ops, h.Op{K: h.OpAdd, Bar: b}, h.Op{K: h.OpIncr, Bar: b, N: tot})
		if c.Refresh == h.RefManual {
			ops = append(ops, h.Op{K: h.OpRefresh})
		} else {
			ops = append(ops, h.Op{K: h.OpSleep, D: c.RateNS})
		}
		if r.Bool(0.15) {
			ops = append(ops, h.Op{K: h.OpWrite, S: UserLine(0, b, "between")})
		}
	}
	for k := 0; k < 4; k++ {
		if c.Refresh == h.RefManual {
			ops = append(ops, h.Op{K: h.OpRefresh})
		} else {
			ops = append(ops, h.Op{K: h.OpSleep, D: c.RateNS})
		}
	}
	sc.Clients = [][]h.Op{ops}
	p := DefaultProfile(prop)
	sc.Sched = genSched(r, &p)
	return sc
}

// screenCheck runs the emulator over all frames and compares the screen with
// the persisted lines plus the current row groups after every frame. It
// returns the first discrepancy. popRule tells which groups of a frame are
// popped out (persist from then on).
func screenCheck(hi *Hist, frames []*Frame, facts []*BarFacts, prop string) *Violation {
	c := &hi.Sc.Cont
	var vt *VT
	if c.Terminal {
		vt = NewVT(c.TermW, c.TermH)
	} else {
		vt = NewVT(0, 0)
	}
	// a poppable bar is popped out by its third finished render (the library counts the renders of a
	// finished bar: 0 normal position, 1 hand-over / pop priority, 2 popped); the spy sees every render,
	// including those whose rows are clipped away by the terminal height
	finishedRenders := map[int]int{}
	var persist []string
	for k, f := range frames {
		if f.W.Err != "" {
			return nil // injected output fault: the screen is undefined from here on
		}
		if c.Terminal && f.TermW > 0 {
			vt.Resize(f.TermW, f.TermH)
		}
		vt.Write(f.W.Payload)
		if len(vt.Bad) > 0 {
			return viol(prop, "bad-control", "frame %d contains %s", k, vt.Bad[0])
		}
		if f.HasPrefix && f.CUU == 0 {
			return viol(prop, "cuu-zero", "frame %d moves the cursor up by 0 lines", k)
		}
		// user lines wider than the terminal wrap: that is the client's choice
		var user []string
		for _, u := range f.User {
			w := NewVT(vt.W, 0)
			w.Write([]byte(u + "\n"))
			user = append(user, w.Lines()...)
		}
		expected := append(append([]string{}, persist...), user...)
		firstLive := len(expected)
		var popped []string
		poppedRows := 0
		popNow := map[int]bool{}
		for bar, recs := range f.Spy {
			// one record per render; with a render delay the cycles drawn into the void before the
			// first real frame are all attached to that frame
			for _, rec := range recs {
				if rec.Completed || rec.Aborted {
					finishedRenders[bar]++
					if finishedRenders[bar] == 3 && bar >= 0 && bar < len(facts) && poppable(hi, facts[bar]) {
						popNow[bar] = true
					}
				}
			}
		}
		if c.Anon {
			// anonymous bars (one row each): the bars popped by this frame are its topmost rows
			for n := 0; n < len(popNow) && n < len(f.Rows); n++ {
				popped = append(popped, stripSGR(f.Rows[n].Text))
				poppedRows++
			}
		} else {
			for _, g := range f.Groups {
				if popNow[g.Bar] {
					for _, r := range f.Rows[g.From:g.To] {
						popped = append(popped, stripSGR(r.Text))
					}
					poppedRows += g.To - g.From
				}
			}
		}
		for _, r := range f.Rows {
			expected = append(expected, stripSGR(r.Text))
		}
		// a bar's row group is its own row followed by its extender rows in order (or, for a reversed
		// extender, preceded by them in reverse): on the live region and, later, among the persisted lines
		if !c.Anon {
			for _, g := range f.Groups {
				if g.Bar < 0 || g.Bar >= len(facts) || g.Main < 0 {
					continue
				}
				spec := facts[g.Bar].Spec
				if spec.ExtRows == 0 || g.To-g.From != 1+spec.ExtRows {
					continue // no extender, or clipped by the height
				}
				okShape := true
				if !spec.ExtRev {
					okShape = g.Main == g.From
					for j := 0; j < spec.ExtRows && okShape; j++ {
						okShape = f.Rows[g.From+1+j].Kind == 'X' && f.Rows[g.From+1+j].ExtJ == j
					}
				} else {
					okShape = g.Main == g.To-1
					for j := 0; j < spec.ExtRows && okShape; j++ {
						okShape = f.Rows[g.From+j].Kind == 'X' && f.Rows[g.From+j].ExtJ == spec.ExtRows-1-j
					}
				}
				note("row_group_shapes_checked")
				if !okShape {
					var got []string
					for _, r := range f.Rows[g.From:g.To] {
						got = append(got, clip(stripSGR(r.Text), 24))
					}
					return viol(prop, "row-group-shape", "frame %d: the rows of bar %d (extender with %d rows, reversed=%v) are out of order: %q", k, g.Bar, spec.ExtRows, spec.ExtRev, got)
				}
			}
		}
		note("frames_emulated")
		if c.Terminal && vt.H > 0 && len(f.Rows)+2 >= vt.H {
			note("tight_terminal")
		}
		got := vt.Lines()
		if d := diffLines(expected, got); d != "" {
			return viol(prop, "screen-mismatch", "after frame %d the terminal (%dx%d) does not show the persisted lines followed by the current rows:\n%s", k, vt.W, vt.H, d)
		}
		firstLive += poppedRows
		if vt.H > 0 && len(f.Rows) > poppedRows && vt.Top() > firstLive {
			return viol(prop, "row-in-scrollback", "after frame %d (%d rows on a %dx%d terminal) %d live bar row(s) have scrolled off the top of the screen and can no longer be erased", k, len(f.Rows), vt.W, vt.H, vt.Top()-firstLive)
		}
		if c.Terminal && f.TermW > 0 {
			for _, r := range f.Rows {
				if r.Kind == 'X' || r.Kind == 'U' {
					continue
				}
				if w := DisplayWidth(r.Text); w > f.TermW {
					return viol(prop, "row-too-wide", "frame %d: bar row is %d columns wide on a %d column terminal: %q", k, w, f.TermW, r.Text)
				}
			}
		}
		persist = append(persist, user...)
		persist = append(persist, popped...)
	}
	return nil
}

func stripSGR(s string) string {
	return strings.ReplaceAll(strings.ReplaceAll(s, "\x1b[1m", ""), "\x1b[0m", "")
}

func diffLines(want, got []string) string {
	n := len(want)
	if len(got) > n {
		n = len(got)
	}
	var sb strings.Builder
	bad := false
	for i := 0; i < n; i++ {
		w, g := "<none>", "<none>"
		if i < len(want) {
			w = want[i]
		}
		if i < len(got) {
			g = got[i]
		}
		if w != g {
			bad = true
			fmt.Fprintf(&sb, "  line %d: want %q\n           got  %q\n", i, clip(w, 100), clip(g, 100))
			if sb.Len() > 1500 {
				break
			}
		}
	}
	if !bad {
		return ""
	}
	return sb.String()
}

func judgeC04(hi *Hist) []*Violation {
	if hi.Res.Outcome != simrt.OK {
		return nil
	}
	c := &hi.Sc.Cont
	// silence without refresh on a non-terminal output
	if c.Refresh == h.RefNone && !c.Terminal {
		note("silence_checked")
		if len(hi.Writes) > 0 {
			return []*Violation{viol("C04", "not-silent", "the container has neither auto nor manual refresh and its output is not a terminal, yet %d writes reached the output, first: %q",
				len(hi.Writes), clip(string(hi.Writes[0].Payload), 100))}
		}
		return nil
	}
	// nothing before the render delay ends
	if c.Delay {
		note("delay_checked")
		closed := len(hi.Log)
		for _, op := range hi.Ops {
			if op.Op.K == h.OpCloseDelay && op.R == 1 {
				closed = op.Inv
			}
		}
		for _, w := range hi.Writes {
			if w.At < closed {
				return []*Violation{viol("C04", "write-before-delay-end", "%d bytes were written before the render delay channel was closed: %q", len(w.Payload), clip(string(w.Payload), 100))}
			}
		}
	}
	if faulted(hi) {
		return nil
	}
	frames := ParseFrames(hi)
	facts := Facts(hi)
	if v := screenCheck(hi, frames, facts, "C04"); v != nil {
		return []*Violation{v}
	}
	// "nothing stale remains": the equation above is evaluated after every frame that was written; a
	// frame that should have been written to erase the rows of removed bars, and was not, leaves
	// them on the screen for good
	if AutoMode(hi.Sc) && hi.WaitOut >= 0 && !cancelled(hi) && !c.Delay && !c.Anon && len(frames) > 0 {
		last := frames[len(frames)-1]
		if len(last.Spy) <= len(last.Groups) {
			for _, g := range last.Groups {
				if g.Bar < 0 || g.Bar >= len(facts) {
					continue
				}
				bf := facts[g.Bar]
				if !bf.Added || bf.Final == nil || poppable(hi, bf) || !bf.Sequential || len(bf.Succ) > 0 || bf.AddRet > last.W.At {
					continue
				}
				if removable(hi, bf) {
					note("c04_final_stale_checked")
					return []*Violation{viol("C04", "stale-rows", "bar %d has been removed from the container but its rows are still on the screen after the last frame (frame %d): nothing erased them: %s", g.Bar, len(frames)-1, last)}
				}
			}
		}
	}
	return nil
}
