package o

import (
	"strings"

	"verif/sim/simrt"

	"github.com/vbauerster/mpb/v8/zzverif/h"
)

func init() {
	register(&PropDef{ID: "C14", Gen: genC14, Judge: judgeC14, Expand: expandC14, NonTrivial: func(hi *Hist) bool {
		return hi.InjectAt >= 0 && len(hi.Added) >= 1
	}, Probes: []string{"c14_inject_before_first_frame", "c14_inject_between_frames", "c14_inject_during_add", "c14_inject_bar_finishing", "c14_inject_after_clients", "c14_listeners_checked", "c14_notifier_checked"}})
	register(&PropDef{ID: "C15", Gen: genC15, Judge: judgeC15, Expand: expandC15, NonTrivial: func(hi *Hist) bool {
		return faulted(hi) && len(hi.Added) >= 1
	}, Probes: []string{"c15_fault_with_sync_peers", "c15_fault_in_final_render"}})
}

// ---------------------------------------------------------------------------
// C14: cancellation / Shutdown injected at every step of a base run

const never = int64(1) << 60

func genC14(r *Rand, tier string, i int) *h.Scenario {
	p := DefaultProfile("C14")
	p.MaxBars = 4
	p.MaxOps = 8
	p.PListener = 0.6
	p.PWrap = 0.5
	p.PNotifier = 0.7
	p.RefreshW = [3]int{4, 3, 3}
	p.PQueueAfter = 0
	p.PLate = 0
	p.PDelay = 0.2 // a cancellation while rendering is still delayed must get through as well
	p.PClientAdd = 0.6
	if r.Bool(0.04) {
		p.MinBars, p.MaxBars = 0, 0 // an empty container is cancelled and waited for like any other
	}
	sc := GenBase(r, &p)
	// "no more refreshing": the program closes its refresh channel once its clients are done,
	// then waits; a cancellation must still get through
	if sc.Cont.Refresh == h.RefManual && r.Bool(0.25) {
		sc.Main = append(sc.Main, h.Op{K: h.OpJoin}, h.Op{K: h.OpCloseRefresh})
	}
	sc.InjectKind = 1 + r.Intn(2)
	sc.InjectAt = never
	for _, b := range sc.Initial {
		sc.Post = append(sc.Post, h.Op{K: h.OpBarWait, Bar: b}, h.Op{K: h.OpIsRunning, Bar: b})
	}
	addWatchers(r, sc)
	return sc
}

func expandC14(base *h.Scenario, hi *Hist, r *Rand, tier string) []*h.Scenario {
	if hi.Res.Outcome == simrt.Panic || base.InjectAt != never {
		return nil
	}
	n := hi.Res.MainExitAt
	if hi.WaitOut >= 0 {
		n = hi.Log[hi.WaitOut].Step
	}
	if hi.Res.Outcome != simrt.OK {
		// the program does not come to an end on its own (which is for C01 to report): a
		// cancellation on the way there must end it all the same
		if len(hi.Log) == 0 {
			return nil
		}
		n = hi.Log[len(hi.Log)-1].Step
	}
	var pts []int64
	limit := int64(400)
	sample := 48
	if tier == "thorough" {
		limit, sample = 1200, 128
	}
	if n <= limit {
		for t := int64(1); t <= n; t++ {
			pts = append(pts, t)
		}
	} else {
		for k := 0; k < sample; k++ {
			pts = append(pts, 1+r.Int63n(n))
		}
	}
	var out []*h.Scenario
	for _, t := range pts {
		v := cloneScenario(base)
		v.InjectAt = t
		if r.Bool(0.5) {
			v.InjectKind = 3 - v.InjectKind
		}
		v.Mode = "inject"
		out = append(out, v)
		// the output (or a filler) dies at the very moment of the cancellation: the next call after
		// step t fails, which is the render the container performs while it shuts down
		if len(base.Faults) == 0 && r.Bool(0.25) {
			writes, fills := 0, map[int]int{}
			for i := range hi.Log {
				e := &hi.Log[i]
				if e.Step > t {
					break
				}
				switch e.Kind {
				case h.EvWrite:
					writes++
				case h.EvFill:
					fills[e.ID]++
				}
			}
			w := cloneScenario(v)
			if r.Bool(0.5) || len(fills) == 0 {
				w.Faults = []h.Fault{{Site: h.FaultOutWrite, K: writes + 1}}
			} else {
				for b, n := range fills {
					if len(w.Faults) == 0 || b < w.Faults[0].Bar {
						w.Faults = []h.Fault{{Site: h.FaultFill, Bar: b, K: n + 1}}
					}
				}
			}
			out = append(out, w)
		}
	}
	return out
}

func judgeC14(hi *Hist) []*Violation {
	if hi.InjectAt < 0 {
		return nil // base run, or the run ended before the injection step
	}
	if hi.WaitOut >= 0 && hi.InjectAt > hi.WaitOut {
		return nil
	}
	res := hi.Res
	var out []*Violation
	add := func(o, f string, a ...interface{}) {
		if len(out) == 0 {
			out = append(out, viol("C14", o, f, a...))
		}
	}
	kind := map[int]string{1: "context cancel", 2: "Shutdown"}[hi.Sc.InjectKind]
	// an Add racing with the cancellation returns a bar or ErrDone, never (nil, nil)
	for _, op := range hi.Ops {
		if op.Op.K == h.OpAdd && op.Ret >= 0 && (op.RS == "nil,nil" || strings.Contains(op.RS, "nonnil")) {
			add("add-result", "%s at step %d: Add returned %s", kind, hi.Sc.InjectAt, op.RS)
		}
	}
	// where did the cancellation land? (reach probes for the evidence)
	{
		at := hi.InjectAt
		switch {
		case len(hi.Writes) == 0 || at < hi.Writes[0].At:
			note("c14_inject_before_first_frame")
		default:
			note("c14_inject_between_frames")
		}
		clientsBusy := false
		for _, op := range hi.Ops {
			if op.Inv < at && (op.Ret < 0 || op.Ret > at) {
				if op.Op.K == h.OpAdd {
					note("c14_inject_during_add")
				}
				if op.Client >= 0 {
					clientsBusy = true
				}
			}
			if op.Client >= 0 && op.Inv > at {
				clientsBusy = true
			}
		}
		if !clientsBusy {
			note("c14_inject_after_clients")
		}
		for _, bf := range Facts(hi) {
			if bf.TermAt >= 0 && bf.TermInv < at {
				// finished by its client; were both finished frames already out?
				nterm := 0
				for _, w := range hi.Writes {
					if w.At > bf.TermInv && w.At < at {
						nterm++
					}
				}
				if nterm < 2 {
					note("c14_inject_bar_finishing")
				}
			}
		}
	}
	switch res.Outcome {
	case simrt.Panic:
		add("panic", "%s at step %d: goroutine created at %s panicked: %s\n%s", kind, hi.Sc.InjectAt, res.PanicG.Site, res.PanicVal, trimStack(res.PanicStack))
		return out
	case simrt.Deadlock, simrt.Hang:
		add("wait-hang", "%s at step %d: %v (wait entered %v, returned %v)\n%s%s", kind, hi.Sc.InjectAt, res.Outcome, hi.WaitIn >= 0, hi.WaitOut >= 0, stuckOps(hi), describeLive(res))
		return out
	}
	if hi.WaitOut < 0 {
		return nil
	}
	facts := Facts(hi)
	for _, bf := range facts {
		if !bf.Added {
			continue
		}
		if bf.Final == nil {
			add("no-final", "bar %d: getters could not be read after Wait", bf.Idx)
			continue
		}
		if bf.Final.Running {
			add("still-running", "%s at step %d: bar %d still reports IsRunning() after Wait returned", kind, hi.Sc.InjectAt, bf.Idx)
		}
		if bf.Final.Completed == bf.Final.Aborted {
			add("not-exactly-one", "%s at step %d: bar %d after Wait: Completed()=%v Aborted()=%v", kind, hi.Sc.InjectAt, bf.Idx, bf.Final.Completed, bf.Final.Aborted)
		}
		if bf.Sequential && !bf.Model.Terminal() && !bf.Final.Aborted {
			// the client never finished it (or its finishing call came too late): it must be reported aborted,
			// unless a finishing mutator was in flight / later than the cancel (then either is possible)
			finishing := false
			for _, op := range hi.Ops {
				if op.Op.Bar == bf.Idx && IsMutator(op.Op.K) && op.Inv < hi.WaitOut {
					m := bf.Model
					_ = m
					finishing = true
				}
			}
			if !finishing {
				add("unfinished-not-aborted", "%s at step %d: bar %d was never touched by its client yet reports Completed()=%v Aborted()=%v", kind, hi.Sc.InjectAt, bf.Idx, bf.Final.Completed, bf.Final.Aborted)
			}
		}
		// listeners: exactly once per listening decorator, before Wait returned
		for side, list := range [][]h.DecSpec{bf.Spec.Pre, bf.Spec.App} {
			for ord, d := range list {
				if d.Kind != h.DecProbe || !d.Listener {
					continue
				}
				n, at := 0, -1
				for i := range hi.Log {
					e := &hi.Log[i]
					if e.Kind == h.EvShutdown && e.ID == bf.Idx && int(e.A) == side && int(e.B) == ord {
						n++
						at = i
					}
				}
				note("c14_listeners_checked")
				if n != 1 {
					add("listener-count", "%s at step %d: shutdown listener %d/%d/%d (wrappers %v) was notified %d times, want exactly once", kind, hi.Sc.InjectAt, bf.Idx, side, ord, d.Wrap, n)
				} else if at > hi.WaitOut {
					add("listener-late", "%s at step %d: shutdown listener %d/%d/%d was notified after Wait had returned", kind, hi.Sc.InjectAt, bf.Idx, side, ord)
				}
			}
		}
	}
	if v := afterBarWait(hi, "C14"); v != nil {
		add("after-bar-wait", "%s at step %d: %s", kind, hi.Sc.InjectAt, v.Msg)
	}
	// Bar.Wait issued after Wait must have returned (run ended OK, so it did); ops in flight returned
	for _, op := range hi.Ops {
		if op.Ret < 0 {
			add("op-stuck", "%s at step %d: %s(bar %d) never returned", kind, hi.Sc.InjectAt, h.OpNames[op.Op.K], op.Op.Bar)
		}
	}
	// notifier: exactly one value, no duplicates, only bars of the container
	if hi.Sc.Cont.Notifier != 0 {
		n := 0
		for i := range hi.Log {
			e := &hi.Log[i]
			if e.Kind != h.EvNotified {
				continue
			}
			n++
			note("c14_notifier_checked")
			if e.A == 2 {
				add("notifier-twice", "%s at step %d: a second value arrived on the shutdown notifier: %v", kind, hi.Sc.InjectAt, e.V)
			}
			seen := map[int]bool{}
			for _, b := range e.V.([]int) {
				if b < 0 {
					add("notifier-unknown", "%s at step %d: the notifier value %v contains something that is not a bar of this container", kind, hi.Sc.InjectAt, e.V)
				} else if seen[b] {
					add("notifier-dup", "%s at step %d: the notifier lists bar %d twice: %v", kind, hi.Sc.InjectAt, b, e.V)
				}
				seen[b] = true
			}
			// bars that can not have left the container must be listed (a cycle that failed with a filler
			// error does not hand its bars back: after such a fault only the count of values is judged;
			// a failing output write comes after the bars have been handed back)
			for _, bf := range facts {
				if len(hi.Sc.Faults) > 0 && hi.Sc.Faults[0].Site != h.FaultOutWrite && hi.Sc.Faults[0].Site != h.FaultOutShort {
					break
				}
				if bf.Added && !bf.Queued && !mayBeRemovable(hi, bf) && !poppable(hi, bf) && !seen[bf.Idx] && e.A == 1 {
					add("notifier-missing", "%s at step %d: the notifier value %v does not list bar %d, which Add returned and which is never removed", kind, hi.Sc.InjectAt, e.V, bf.Idx)
				}
			}
		}
		if n == 0 {
			add("notifier-none", "%s at step %d: no value arrived on the shutdown notifier", kind, hi.Sc.InjectAt)
		}
	}
	for _, w := range hi.Writes {
		if w.At > hi.WaitOut {
			add("write-after-wait", "%s at step %d: output written after Wait returned", kind, hi.Sc.InjectAt)
		}
	}
	return out
}

// ---------------------------------------------------------------------------
// C15: an error at every render fault site

func genC15(r *Rand, tier string, i int) *h.Scenario {
	p := DefaultProfile("C15")
	p.MinBars, p.MaxBars = 2, 5
	p.MaxOps = 6
	p.MaxClients = 2
	p.PSync = 0.6
	p.MaxDecs = 2
	p.PExt = 0.5
	p.PTerminal = 0.5
	p.PTightTerm = 0.35 // an error in a bar that has no line of its own counts all the same
	p.PQueueAfter = 0.1 // wave 15: a fault in the cycle that hands a place over
	p.PDelay = 0
	p.PLate = 0
	p.PNotifier = 0.5
	p.RefreshW = [3]int{6, 3, 0}
	p.PListener = 0.3
	sc := GenBase(r, &p)
	for _, b := range sc.Initial {
		sc.Post = append(sc.Post, h.Op{K: h.OpBarWait, Bar: b}, h.Op{K: h.OpIsRunning, Bar: b})
	}
	return sc
}

func expandC15(base *h.Scenario, hi *Hist, r *Rand, tier string) []*h.Scenario {
	if hi.Res.Outcome != simrt.OK || len(base.Faults) > 0 {
		return nil
	}
	capK := 12
	if tier == "thorough" {
		capK = 24
	}
	fills, exts := map[int]int{}, map[int]int{}
	sizes := 0
	for i := range hi.Log {
		switch e := &hi.Log[i]; e.Kind {
		case h.EvFill:
			fills[e.ID]++
		case h.EvExt:
			exts[e.ID]++
		case h.EvTermSize:
			sizes++
		}
	}
	var out []*h.Scenario
	variant := func(f h.Fault, k int) {
		// (which error value comes back must not matter: the harness's own, a closed pipe, EPIPE, EOF ...)
		if r.Bool(0.5) {
			f.Err = r.Intn(h.NFaultErrs)
		}
		v := cloneScenario(base)
		v.Faults = []h.Fault{f}
		v.Mode = "fault:" + h.FaultNames[f.Site]
		if k%2 == 1 {
			v.Seed = simrt.Mix(base.Seed, uint64(len(out)+1)) // same program, another schedule
		}
		out = append(out, v)
	}
	pick := func(n int) []int {
		var ks []int
		if n <= capK {
			for k := 1; k <= n; k++ {
				ks = append(ks, k)
			}
			return ks
		}
		for len(ks) < capK {
			ks = append(ks, 1+r.Intn(n))
		}
		return ks
	}
	for b := range base.Bars {
		for j, k := range pick(fills[b]) {
			variant(h.Fault{Site: h.FaultFill, Bar: b, K: k}, j)
		}
		for j, k := range pick(exts[b]) {
			variant(h.Fault{Site: h.FaultExt, Bar: b, K: k}, j)
		}
	}
	for j, k := range pick(len(hi.Writes)) {
		variant(h.Fault{Site: h.FaultOutWrite, K: k}, j)
		variant(h.Fault{Site: h.FaultOutShort, K: k}, j+1)
	}
	for j, k := range pick(sizes) {
		variant(h.Fault{Site: h.FaultTermSize, K: k}, j)
	}
	return out
}

func judgeC15(hi *Hist) []*Violation {
	if !faulted(hi) {
		return nil
	}
	res := hi.Res
	var out []*Violation
	add := func(o, f string, a ...interface{}) {
		if len(out) == 0 {
			out = append(out, viol("C15", o, f, a...))
		}
	}
	f := hi.Sc.Faults[0]
	what := h.FaultNames[f.Site] + " at call " + itoa(f.K)
	if f.Site == h.FaultFill || f.Site == h.FaultExt {
		what += " of bar " + itoa(f.Bar)
	}
	switch res.Outcome {
	case simrt.Panic:
		add("panic", "%s: goroutine created at %s panicked: %s\n%s", what, res.PanicG.Site, res.PanicVal, trimStack(res.PanicStack))
		return out
	case simrt.Deadlock, simrt.Hang:
		add("wait-hang", "%s: %v, Wait returned: %v\n%s%s", what, res.Outcome, hi.WaitOut >= 0, stuckOps(hi), describeLive(res))
		return out
	}
	if hi.WaitOut < 0 {
		return nil
	}
	// the error is reported to the debug output exactly once
	want := h.FaultErr(f.Err).Error()
	if f.Site == h.FaultOutShort {
		want = "short write"
	}
	if f.Site == h.FaultTermSize {
		want = h.ErrInjected.Error()
	}
	if len(hi.Debug) != 1 {
		add("debug-count", "%s: the debug output received %d lines %q, want exactly one", what, len(hi.Debug), hi.Debug)
	} else if strings.TrimSpace(hi.Debug[0]) != want {
		add("debug-text", "%s: the debug output received %q, want %q", what, hi.Debug[0], want)
	}
	// no further frame
	faultAt := -1
	for i := range hi.Log {
		if hi.Log[i].Kind == h.EvFault {
			faultAt = i
			break
		}
	}
	for _, w := range hi.Writes {
		if w.At > faultAt+1 {
			add("frame-after-error", "%s: the output was written again after the failing render cycle: %q", what, clip(string(w.Payload), 80))
		}
	}
	for _, bf := range Facts(hi) {
		if bf.Added && bf.Final != nil && bf.Final.Running {
			add("still-running", "%s: bar %d still reports IsRunning() after Wait returned", what, bf.Idx)
		}
	}
	for _, op := range hi.Ops {
		if op.Ret < 0 {
			add("op-stuck", "%s: %s(bar %d) never returned", what, h.OpNames[op.Op.K], op.Op.Bar)
		}
	}
	for _, g := range res.Live {
		if libSite(g.Site) {
			add("leak", "%s: library goroutine still alive at quiescence:\n%s", what, describeLive(res))
			break
		}
	}
	return out
}
