package o

import (
	"fmt"
	"regexp"
	"strconv"
	"strings"

	"github.com/mattn/go-runewidth"
	"github.com/vbauerster/mpb/v8/zzverif/h"
)

// Row is one line of a frame's bar region.
type Row struct {
	Text  string
	Kind  byte // 'B' main row of a bar, 'X' extender row, '?' unattributed
	Bar   int
	Cur   int64
	Tot   int64
	Flags string
	ExtJ  int
}

// Group is the row group of one bar in a frame.
type Group struct {
	Bar      int
	From, To int // rows [From, To)
	Main     int // index of the main row
	Cur, Tot int64
	Flags    string
}

// Frame is one output Write, parsed.
type Frame struct {
	W            *WriteRec
	Index        int
	CUU          int // lines the cursor is moved up before drawing (0: no prefix)
	HasPrefix    bool
	User         []string // user lines (with their tags), in payload order
	UserEnd      int      // byte offset in the payload (after the prefix) where the bar region starts
	Rows         []Row
	Groups       []Group
	Spy          map[int][]h.SpyRec // spy records of the render cycle that produced this frame
	Fmt          []h.FmtRec         // probe Format records of that cycle
	Problems     []string
	Body         string // payload without prefix
	TermW, TermH int    // terminal size reported to the cycle (0 if not queried)
}

var (
	prefixRe = regexp.MustCompile(`^\x1b\[(\d+)A\x1b\[J`)
	spyRe    = regexp.MustCompile(`B(\d+):(-?\d+)/(-?\d+):(R|CA|C|A);`)
	extRe    = regexp.MustCompile(`^X(\d+)\.(\d+)$`)
	userRe   = regexp.MustCompile(`^U(\d+)\.(\d+):`)
)

// ParseFrames parses every output Write of a history into a frame and
// attaches the probe records of the render cycle that produced it.
func ParseFrames(hi *Hist) []*Frame {
	var frames []*Frame
	prevAt := -1
	for wi := range hi.Writes {
		w := &hi.Writes[wi]
		f := &Frame{W: w, Index: wi, Spy: map[int][]h.SpyRec{}}
		body := string(w.Payload)
		if m := prefixRe.FindStringSubmatch(body); m != nil {
			f.HasPrefix = true
			f.CUU, _ = strconv.Atoi(m[1])
			body = body[len(m[0]):]
		}
		f.Body = body
		if strings.Contains(body, "\x1b[") && strings.Contains(strings.ReplaceAll(strings.ReplaceAll(body, "\x1b[1m", ""), "\x1b[0m", ""), "\x1b") {
			f.Problems = append(f.Problems, "escape sequence inside the frame body")
		}
		lines := strings.Split(body, "\n")
		if lines[len(lines)-1] != "" {
			f.Problems = append(f.Problems, "payload does not end with a newline")
		} else {
			lines = lines[:len(lines)-1]
		}
		inUser := true
		off := 0
		for _, ln := range lines {
			if inUser && userRe.MatchString(ln) {
				f.User = append(f.User, ln)
				off += len(ln) + 1
				continue
			}
			if inUser {
				inUser = false
				f.UserEnd = off
			}
			row := Row{Text: ln, Kind: '?', Bar: -1}
			if userRe.MatchString(ln) {
				row.Kind = 'U'
			} else if m := extRe.FindStringSubmatch(ln); m != nil {
				row.Kind = 'X'
				row.Bar, _ = strconv.Atoi(m[1])
				row.ExtJ, _ = strconv.Atoi(m[2])
			} else if m := spyRe.FindStringSubmatch(ln); m != nil {
				row.Kind = 'B'
				row.Bar, _ = strconv.Atoi(m[1])
				row.Cur, _ = strconv.ParseInt(m[2], 10, 64)
				row.Tot, _ = strconv.ParseInt(m[3], 10, 64)
				row.Flags = m[4]
			}
			f.Rows = append(f.Rows, row)
		}
		if inUser {
			f.UserEnd = off
		}
		// groups: a main row plus the adjacent extender rows of the same bar
		for i := 0; i < len(f.Rows); i++ {
			r := f.Rows[i]
			if r.Kind != 'B' && r.Kind != 'X' {
				continue
			}
			j := i
			for j+1 < len(f.Rows) && f.Rows[j+1].Bar == r.Bar && (f.Rows[j+1].Kind == 'X' || (f.Rows[j+1].Kind == 'B' && !hasMain(f.Rows[i:j+1]))) {
				j++
			}
			g := Group{Bar: r.Bar, From: i, To: j + 1, Main: -1}
			for k := i; k <= j; k++ {
				if f.Rows[k].Kind == 'B' {
					g.Main = k
					g.Cur, g.Tot, g.Flags = f.Rows[k].Cur, f.Rows[k].Tot, f.Rows[k].Flags
				}
			}
			f.Groups = append(f.Groups, g)
			i = j
		}
		// probe records of the cycle: between the previous write and this one
		for k := prevAt + 1; k < w.At; k++ {
			e := &hi.Log[k]
			switch e.Kind {
			case h.EvSpy:
				rec := e.V.(h.SpyRec)
				f.Spy[rec.Bar] = append(f.Spy[rec.Bar], rec)
			case h.EvFormat:
				f.Fmt = append(f.Fmt, e.V.(h.FmtRec))
			case h.EvTermSize:
				if e.S == "" {
					f.TermW, f.TermH = int(e.A), int(e.B)
				}
			}
		}
		prevAt = w.At
		frames = append(frames, f)
	}
	return frames
}

func hasMain(rows []Row) bool {
	for _, r := range rows {
		if r.Kind == 'B' {
			return true
		}
	}
	return false
}

// Has reports whether the frame contains a row group of the bar.
func (f *Frame) Has(bar int) bool {
	for _, g := range f.Groups {
		if g.Bar == bar {
			return true
		}
	}
	return false
}

// GroupOf returns the first row group of the bar, or nil.
func (f *Frame) GroupOf(bar int) *Group {
	for i := range f.Groups {
		if f.Groups[i].Bar == bar {
			return &f.Groups[i]
		}
	}
	return nil
}

// Bars lists the bars of the frame from top to bottom.
func (f *Frame) Bars() []int {
	var out []int
	for _, g := range f.Groups {
		out = append(out, g.Bar)
	}
	return out
}

func (f *Frame) String() string {
	var sb strings.Builder
	fmt.Fprintf(&sb, "frame %d (cuu=%d, %d user lines):", f.Index, f.CUU, len(f.User))
	for _, g := range f.Groups {
		fmt.Fprintf(&sb, " [B%d %d/%d %s x%d]", g.Bar, g.Cur, g.Tot, g.Flags, g.To-g.From)
	}
	return sb.String()
}

// DisplayWidth is the number of terminal columns of s (ANSI SGR sequences stripped).
func DisplayWidth(s string) int {
	s = strings.ReplaceAll(strings.ReplaceAll(s, "\x1b[1m", ""), "\x1b[0m", "")
	return runewidth.StringWidth(s)
}
