// worker executes simulated runs of one property: search batches, replays and
// minimisation. It is built by the check against the instrumented scratch
// copy of /repo and is not itself instrumented.
package main

import (
	"encoding/json"
	"flag"
	"fmt"
	"os"
	"sort"
	"time"

	"verif/sim/simrt"

	"github.com/vbauerster/mpb/v8/zzverif/h"
	"github.com/vbauerster/mpb/v8/zzverif/o"
)

// Replay is the on-disk form of a failing (or sample) run.
type Replay struct {
	Prop      string      `json:"prop"`
	Oracle    string      `json:"oracle"`
	Msg       string      `json:"msg"`
	Known     string      `json:"known,omitempty"`
	Tier      string      `json:"tier"`
	BaseSeed  uint64      `json:"base_seed"`
	Index     int         `json:"index"`
	Scenario  *h.Scenario `json:"scenario"`
	Choices   []int32     `json:"choices"`
	TraceHash string      `json:"trace_hash"`
	Steps     int64       `json:"steps"`
	Minimised bool        `json:"minimised"`
}

// Batch is the result of a search batch.
type Batch struct {
	Prop         string            `json:"prop"`
	Runs         int               `json:"runs"`
	NonTrivial   int               `json:"nontrivial"`
	Steps        int64             `json:"steps"`
	SimTimeNS    int64             `json:"sim_time_ns"`
	Goroutines   int64             `json:"goroutines"`
	Fingerprints []string          `json:"fingerprints"`
	Outcomes     map[string]int    `json:"outcomes"`
	Strategies   map[string]int    `json:"strategies"`
	Faults       map[string]int64  `json:"faults"`
	Probes       map[string]int64  `json:"probes"`
	Violations   []string          `json:"violations"` // replay file paths (unknown violations)
	Known        map[string]int    `json:"known"`      // known-finding id -> matching runs
	KnownSample  map[string]string `json:"known_sample"`
	Rechecks     int               `json:"determinism_rechecks"`
	Mismatch     int               `json:"determinism_mismatch"`
	Samples      []json.RawMessage `json:"samples"`
	WallMS       int64             `json:"wall_ms"`
	RaceReports  int               `json:"race_reports"`
	BaseRuns     int               `json:"base_runs"`
	Enumerated   int               `json:"enumerated"`
}

func fatal(f string, a ...interface{}) {
	fmt.Fprintf(os.Stderr, "INFRA: "+f+"\n", a...)
	os.Exit(2)
}

func main() {
	if len(os.Args) < 2 {
		fatal("usage: worker run|replay|minimize|gen ...")
	}
	switch os.Args[1] {
	case "run":
		cmdRun(os.Args[2:])
	case "replay":
		cmdReplay(os.Args[2:])
	case "minimize":
		cmdMinimize(os.Args[2:])
	case "gen":
		cmdGen(os.Args[2:])
	case "hashes":
		cmdHashes(os.Args[2:])
	default:
		fatal("unknown command %s", os.Args[1])
	}
}

func runSeed(base uint64, prop string, i int) uint64 {
	var ph uint64
	for _, c := range []byte(prop) {
		ph = ph*131 + uint64(c)
	}
	return simrt.Mix(simrt.Mix(base, ph), uint64(i))
}

func generate(def *o.PropDef, base uint64, tier string, i int) *h.Scenario {
	seed := runSeed(base, def.ID, i)
	r := o.NewRand(seed)
	sc := def.Gen(r, tier, i)
	sc.Seed = seed
	sc.Prop = def.ID
	return sc
}

func hex(x uint64) string { return fmt.Sprintf("%016x", x) }

func writeJSON(path string, v interface{}) {
	b, err := json.MarshalIndent(v, "", " ")
	if err != nil {
		fatal("marshal: %v", err)
	}
	if err := os.WriteFile(path, b, 0o644); err != nil {
		fatal("write %s: %v", path, err)
	}
}

func cmdGen(args []string) {
	fs := flag.NewFlagSet("gen", flag.ExitOnError)
	prop := fs.String("prop", "C01", "")
	tier := fs.String("tier", "quick", "")
	seed := fs.Uint64("seed", 1, "")
	idx := fs.Int("index", 0, "")
	fs.Parse(args)
	def := o.Props[*prop]
	if def == nil {
		fatal("unknown property %s", *prop)
	}
	sc := generate(def, *seed, *tier, *idx)
	b, _ := json.MarshalIndent(sc, "", " ")
	fmt.Println(string(b))
}

func cmdRun(args []string) {
	fs := flag.NewFlagSet("run", flag.ExitOnError)
	prop := fs.String("prop", "", "property id")
	tier := fs.String("tier", "quick", "")
	seed := fs.Uint64("seed", 1, "base seed")
	start := fs.Int("start", 0, "first run index")
	stride := fs.Int("stride", 1, "index stride (number of workers)")
	count := fs.Int("count", 100, "max runs")
	budget := fs.Duration("budget", 0, "wall-clock budget (0: none)")
	out := fs.String("out", "", "result file")
	replayDir := fs.String("replays", "", "directory for replay files")
	known := fs.String("known", "", "known_findings.json")
	maxViol := fs.Int("maxviol", 3, "stop after this many unknown violations")
	raceFor := fs.String("racefor", "", "race tier: run this property's scenarios but report only data races, as violations of the given property")
	fs.Parse(args)
	def := o.Props[*prop]
	if def == nil {
		fatal("unknown property %s", *prop)
	}
	o.LoadKnown(*known)
	b := &Batch{Prop: *prop, Outcomes: map[string]int{}, Strategies: map[string]int{}, Faults: map[string]int64{}, Probes: map[string]int64{},
		Known: map[string]int{}, KnownSample: map[string]string{}}
	fps := map[uint64]struct{}{}
	t0 := time.Now()
	race0 := simrt.RaceErrors()
	nbase := 0
	for n := 0; n < *count; n++ {
		if *budget > 0 && time.Since(t0) > *budget {
			break
		}
		i := *start + n**stride
		base := generate(def, *seed, *tier, i)
		queue := []*h.Scenario{base}
		nbase++
		for qi := 0; qi < len(queue); qi++ {
			if qi > 0 && *budget > 0 && time.Since(t0) > *budget+*budget/4 {
				break
			}
			sc := queue[qi]
			hi := o.Execute(sc, nil, false, nil)
			if qi == 0 && def.Expand != nil {
				vs := def.Expand(sc, hi, o.NewRand(sc.Seed^0x5bd1e995), *tier)
				queue = append(queue, vs...)
				b.Enumerated += len(vs)
			}
			b.Runs++
			b.Steps += hi.Res.Steps
			b.SimTimeNS += hi.Res.SimTime
			b.Goroutines += int64(hi.Res.Goroutines)
			b.Outcomes[hi.Res.Outcome.String()]++
			b.Strategies[sc.Sched.Strategy]++
			nt := def.NonTrivial(hi)
			if nt {
				b.NonTrivial++
				fps[hi.Res.Fingerprint] = struct{}{}
			}
			o.CountReach(hi, b.Faults, b.Probes)
			vs := def.Judge(hi)
			if *raceFor != "" {
				vs = nil // only the detector's verdict counts in this tier
			}
			if os.Getenv("VERIF_DEBUG_NONOK") != "" && hi.Res.Outcome != simrt.OK && len(vs) == 0 {
				vs = append(vs, &o.Violation{Prop: *prop, Oracle: "debug-nonok", Msg: hi.Res.Outcome.String() + "\n" + simrt.FormatLive(hi.Res.Live)})
			}
			if rd := hi.Res.RaceErrors - race0; rd > 0 && simrt.RaceEnabled() {
				race0 = hi.Res.RaceErrors
				b.RaceReports += rd
				if *prop == "C10" || *raceFor != "" {
					vs = append(vs, &o.Violation{Prop: "C10", Oracle: "data-race", Msg: fmt.Sprintf("the race detector reported %d data race(s) during this run (see the worker's stderr for the stacks)", rd)})
				}
			}
			// determinism self-check on a sample of runs
			if b.Runs%97 == 3 {
				hi2 := o.Execute(sc, hi.Res.Choices, true, nil)
				b.Rechecks++
				if hi2.Res.TraceHash != hi.Res.TraceHash {
					b.Mismatch++
				}
			}
			if len(b.Samples) < 3 && nt {
				sm, _ := json.Marshal(map[string]interface{}{"index": i, "variant": qi, "seed": sc.Seed, "scenario": sc, "steps": hi.Res.Steps, "schedule_prefix": prefix(hi.Res.Choices, 48)})
				b.Samples = append(b.Samples, sm)
			}
			for _, v := range vs {
				if id := o.MatchKnown(hi, v); id != "" {
					v.Known = id
					b.Known[id]++
					if _, ok := b.KnownSample[id]; !ok {
						b.KnownSample[id] = v.Oracle + ": " + firstLine(v.Msg)
					}
					continue
				}
				tag := *prop
				if *raceFor != "" {
					tag = *raceFor + "race" + *prop
				}
				path := fmt.Sprintf("%s/tmp-%s-%s-%d.json", *replayDir, tag, hex(sc.Seed), qi)
				rp := &Replay{Prop: v.Prop, Oracle: v.Oracle, Msg: v.Msg, Tier: *tier, BaseSeed: *seed, Index: i, Scenario: sc, Choices: hi.Res.Choices,
					TraceHash: hex(hi.Res.TraceHash), Steps: hi.Res.Steps}
				writeJSON(path, rp)
				b.Violations = append(b.Violations, path)
				break
			}
			if len(b.Violations) >= *maxViol {
				break
			}
		}
		if len(b.Violations) >= *maxViol {
			break
		}
	}
	b.BaseRuns = nbase
	for k, v := range o.OracleProbes {
		b.Probes[k] += v
	}
	for f := range fps {
		b.Fingerprints = append(b.Fingerprints, hex(f))
	}
	sort.Strings(b.Fingerprints)
	b.WallMS = time.Since(t0).Milliseconds()
	if *out != "" {
		writeJSON(*out, b)
	} else {
		x, _ := json.MarshalIndent(b, "", " ")
		fmt.Println(string(x))
	}
}

func prefix(c []int32, n int) []int32 {
	if len(c) > n {
		return c[:n]
	}
	return c
}

func firstLine(s string) string {
	for i := 0; i < len(s); i++ {
		if s[i] == '\n' {
			return s[:i]
		}
	}
	return s
}

func loadReplay(path string) *Replay {
	data, err := os.ReadFile(path)
	if err != nil {
		fatal("read %s: %v", path, err)
	}
	rp := &Replay{}
	if err := json.Unmarshal(data, rp); err != nil {
		fatal("parse %s: %v", path, err)
	}
	return rp
}

// judgeReplay re-executes a replay and returns the violation of the same oracle, if any.
func judgeReplay(rp *Replay, sc *h.Scenario, choices []int32, trace func(string)) (*o.Hist, *o.Violation) {
	def := o.Props[rp.Prop]
	if def == nil {
		fatal("unknown property %s", rp.Prop)
	}
	race0 := simrt.RaceErrors()
	hi := o.Execute(sc, choices, true, trace)
	if rp.Oracle == "data-race" {
		if hi.Res.RaceErrors-race0 > 0 {
			return hi, &o.Violation{Prop: rp.Prop, Oracle: "data-race", Msg: "data race reported by the detector"}
		}
		return hi, nil
	}
	for _, v := range def.Judge(hi) {
		if v.Oracle == rp.Oracle {
			return hi, v
		}
	}
	return hi, nil
}

func cmdReplay(args []string) {
	fs := flag.NewFlagSet("replay", flag.ExitOnError)
	trace := fs.Bool("trace", false, "print the interleaving")
	hist := fs.Bool("log", false, "print the history log")
	fs.Parse(args)
	if fs.NArg() != 1 {
		fatal("usage: worker replay [-trace] file")
	}
	rp := loadReplay(fs.Arg(0))
	var tf func(string)
	if *trace {
		tf = func(s string) { fmt.Println(s) }
	}
	hi, v := judgeReplay(rp, rp.Scenario, rp.Choices, tf)
	if *hist {
		for i, e := range hi.Log {
			fmt.Printf("%5d step=%-6d g%-3d %-6s id=%d a=%d b=%d s=%q v=%v\n", i, e.Step, e.G, e.Kind, e.ID, e.A, e.B, e.S, brief(e.V))
		}
	}
	fmt.Printf("replay %s: outcome=%v steps=%d trace_hash=%s (recorded %s)\n", fs.Arg(0), hi.Res.Outcome, hi.Res.Steps, hex(hi.Res.TraceHash), rp.TraceHash)
	if v == nil {
		fmt.Printf("NOT REPRODUCED: oracle %s/%s did not fail\n", rp.Prop, rp.Oracle)
		os.Exit(3)
	}
	fmt.Printf("REPRODUCED property=%s oracle=%s\n%s\n", v.Prop, v.Oracle, v.Msg)
	if hex(hi.Res.TraceHash) != rp.TraceHash {
		fmt.Printf("TRACE-HASH-MISMATCH\n")
		os.Exit(4)
	}
	os.Exit(1)
}

func brief(v interface{}) string {
	switch x := v.(type) {
	case nil:
		return ""
	case []byte:
		return fmt.Sprintf("%q", string(x))
	case h.Op:
		b, _ := json.Marshal(x) // no pointers in the rendering
		return string(b)
	default:
		return fmt.Sprintf("%+v", x)
	}
}

func cmdMinimize(args []string) {
	fs := flag.NewFlagSet("minimize", flag.ExitOnError)
	budget := fs.Duration("budget", 60*time.Second, "time cap")
	fs.Parse(args)
	if fs.NArg() != 2 {
		fatal("usage: worker minimize in.json out.json")
	}
	rp := loadReplay(fs.Arg(0))
	deadline := time.Now().Add(*budget)
	fails := func(sc *h.Scenario, choices []int32) (*o.Hist, bool) {
		hi, v := judgeReplay(rp, sc, choices, nil)
		return hi, v != nil
	}
	hi, ok := fails(rp.Scenario, rp.Choices)
	if !ok {
		fmt.Println("NOT REPRODUCED before minimisation")
		os.Exit(3)
	}
	sc, choices := o.Minimize(rp.Scenario, rp.Choices, func(s *h.Scenario, c []int32) bool {
		if time.Now().After(deadline) {
			return false
		}
		_, bad := fails(s, c)
		return bad
	})
	hi, v := judgeReplay(rp, sc, choices, nil)
	if v == nil {
		fatal("minimised candidate stopped failing")
	}
	rp.Scenario, rp.Choices, rp.Msg = sc, choices, v.Msg
	rp.TraceHash = hex(hi.Res.TraceHash)
	rp.Steps = hi.Res.Steps
	rp.Minimised = true
	writeJSON(fs.Arg(1), rp)
	fmt.Printf("minimised: %d ops, %d bars, %d choices, %d steps\n", o.CountOps(sc), len(sc.Bars), len(choices), hi.Res.Steps)
}

// cmdHashes prints, per run index, the trace hash, the number of steps and a
// hash of the full history log: the determinism self-test compares these lines
// across fresh processes, GOMAXPROCS values and worker counts.
func cmdHashes(args []string) {
	fs := flag.NewFlagSet("hashes", flag.ExitOnError)
	prop := fs.String("prop", "", "")
	tier := fs.String("tier", "quick", "")
	seed := fs.Uint64("seed", 1, "")
	count := fs.Int("count", 20, "")
	fs.Parse(args)
	def := o.Props[*prop]
	if def == nil {
		fatal("unknown property %s", *prop)
	}
	for i := 0; i < *count; i++ {
		sc := generate(def, *seed, *tier, i)
		hi := o.Execute(sc, nil, false, nil)
		queue := []*h.Scenario{}
		if def.Expand != nil {
			vs := def.Expand(sc, hi, o.NewRand(sc.Seed^0x5bd1e995), *tier)
			if len(vs) > 3 {
				vs = vs[:3]
			}
			queue = vs
		}
		fmt.Printf("%d base %s %d %s %d\n", i, hex(hi.Res.TraceHash), hi.Res.Steps, hex(logHash(hi)), len(def.Judge(hi)))
		for k, v := range queue {
			hv := o.Execute(v, nil, false, nil)
			fmt.Printf("%d v%d %s %d %s %d\n", i, k, hex(hv.Res.TraceHash), hv.Res.Steps, hex(logHash(hv)), len(def.Judge(hv)))
		}
	}
}

func logHash(hi *o.Hist) uint64 {
	hsh := uint64(1469598103934665603)
	mix := func(s string) {
		for i := 0; i < len(s); i++ {
			hsh = (hsh ^ uint64(s[i])) * 1099511628211
		}
	}
	for _, e := range hi.Log {
		mix(fmt.Sprintf("%d|%d|%s|%d|%d|%d|%s|%s;", e.Step, e.G, e.Kind, e.ID, e.A, e.B, e.S, brief(e.V)))
	}
	return hsh
}
