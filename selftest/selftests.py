"""Self-validation suites of the machinery: ./verif selftest <what>."""
import glob, json, os, shutil, subprocess, sys, tempfile, time


def main(what, V, args):
    if what == "mutants":
        return mutants(V, args)
    if what == "determinism":
        return determinism(V, args)
    if what == "upstream":
        return upstream(V, args)
    if what == "litmus":
        return litmus(V, args)
    print("unknown selftest", what)
    sys.exit(2)


def mutants(V, args):
    """Applies every patch of /verif/mutants (and /verif/seeded/*/patch.diff) to a scratch copy of /repo,
    checks that it builds and passes the upstream tests, and runs the quick check of the target property."""
    pats = sorted(glob.glob(os.path.join(V.VERIF, "mutants", "*.patch")))
    for d in sorted(glob.glob(os.path.join(V.VERIF, "seeded", "*", "patch.diff"))):
        pats.append(d)
    only = os.environ.get("MUTANTS", "")
    results = []
    budget = os.environ.get("MUTANT_BUDGET", "12")
    for pth in pats:
        if pth.endswith("patch.diff"):
            meta = json.load(open(os.path.join(os.path.dirname(pth), "meta.json")))
            props, name = meta["properties"], os.path.basename(os.path.dirname(pth))
        else:
            base = os.path.basename(pth)
            props, name = [base.split(".")[0]], base.split(".")[1]
        if only and not any(o and (name.startswith(o) or o in props) for o in only.split(",")):
            continue
        scratch = tempfile.mkdtemp(prefix="mpbmut-", dir="/var/tmp")
        try:
            subprocess.run(["rsync", "-a", "--exclude", ".git", V.REPO + "/", scratch + "/"], check=True)
            p = subprocess.run(["patch", "-p1", "-s", "-d", scratch, "-i", pth], capture_output=True, text=True)
            if p.returncode != 0:
                results.append((name, props, "PATCH-FAILED", p.stdout[-300:]))
                continue
            tests = "skipped"
            if not os.environ.get("MUTANT_SKIP_TESTS"):
                t = subprocess.run("cd %s && go build ./... && go test -vet=off -count=1 ./... 2>&1 | tail -5" % scratch, shell=True, env=V.ENV, capture_output=True, text=True)
                tests = "pass" if "FAIL" not in t.stdout and t.returncode == 0 else "FAIL"
            verdicts = {}
            if os.environ.get("MUTANT_PRIMARY_ONLY"):
                props = props[:1]
            for prop in props:
                env = dict(os.environ, VERIF_REPO=scratch)
                t0 = time.time()
                c = subprocess.run([os.path.join(V.VERIF, "verif"), "check", prop, "--budget", budget, "--no-evidence"], env=env, capture_output=True, text=True)
                line = [l for l in c.stdout.splitlines() if l.startswith("VIOLATION") or l.startswith("INFRA") or l.startswith("KNOWN")]
                verdicts[prop] = ("DETECTED" if c.returncode == 1 else "missed" if c.returncode == 0 else "INFRA", round(time.time() - t0, 1), line[:2], [l for l in c.stdout.splitlines() if l.startswith("REPRODUCED")][:1])
            results.append((name, props, tests, verdicts))
            print(name, tests, verdicts, flush=True)
        finally:
            shutil.rmtree(scratch, ignore_errors=True)
    nd = sum(1 for r in results if isinstance(r[3], dict) and any(v[0] == "DETECTED" for v in r[3].values()))
    print("mutants: %d/%d detected" % (nd, len(results)))
    json.dump(results, open(os.path.join(V.VERIF, "selftest", "mutants_result.json"), "w"), indent=1)


def determinism(V, args):
    """Runs the same run indices in fresh worker processes at GOMAXPROCS 1, 4 and 16 (twice each) and compares the
    per-run trace hashes, step counts and history hashes."""
    build = V.Build()
    try:
        build.prepare()
        worker = build.worker(False)
        props = sorted(json.load(open(os.path.join(V.VERIF, "prop_rules.json"))).keys())
        n = args.n or 40
        bad = 0
        total = 0
        for prop in props:
            outs = []
            procs = []
            for gmp in ("1", "4", "16"):
                for rep in range(2):
                    env = dict(V.ENV, GOMAXPROCS=gmp)
                    procs.append(subprocess.Popen([worker, "hashes", "-prop", prop, "-seed", "4242", "-count", str(n)], env=env, stdout=subprocess.PIPE, text=True))
            for p in procs:
                o, _ = p.communicate()
                outs.append(o)
            total += n * len(outs)
            ref = outs[0]
            for o in outs[1:]:
                if o != ref:
                    bad += 1
                    a, b = ref.splitlines(), o.splitlines()
                    for x, y in zip(a, b):
                        if x != y:
                            print("DIVERGENCE %s:\n  %s\n  %s" % (prop, x, y))
                            break
            print("determinism %s: %d runs x %d processes %s" % (prop, n, len(outs), "OK" if all(o == ref for o in outs) else "DIVERGED"), flush=True)
        print("determinism: %d process-runs compared, %d diverging processes" % (total, bad))
        sys.exit(1 if bad else 0)
    finally:
        build.cleanup()


def upstream(V, args):
    """Runs the repository's own test suite under the simulator (rewritten tests, default fair policy)."""
    build = V.Build(tests=True)
    try:
        build.pkgs = [".", "./decor", "./cwriter", "./internal"]
        build.prepare(harness=False)
        p = subprocess.run(["go", "test", "-vet=off", "-count=1", "-json", "./..."], cwd=build.mod, env=V.ENV, capture_output=True, text=True)
        npass = nfail = 0
        failed = []
        for line in p.stdout.splitlines():
            try:
                ev = json.loads(line)
            except Exception:
                continue
            if ev.get("Test") and ev.get("Action") == "pass":
                npass += 1
            if ev.get("Test") and ev.get("Action") == "fail":
                nfail += 1
                failed.append(ev["Test"])
        print("upstream tests under the simulator: %d passed, %d failed %s" % (npass, nfail, failed[:10]))
        sys.exit(1 if nfail or npass == 0 else 0)
    finally:
        build.cleanup()


def litmus(V, args):
    """simrt unit tests, the litmus programs on the real runtime (outcomes within the allowed sets) and, instrumented
    by simrewrite, under exhaustive exploration of all schedules (outcome sets equal to the allowed sets)."""
    p = subprocess.run(["go", "test", "-count=1", "./simrt/..."], cwd=os.path.join(V.VERIF, "sim"), env=V.ENV)
    if p.returncode != 0:
        sys.exit(1)
    p = subprocess.run(["go", "test", "-count=1", "-run", "TestNative", "."], cwd=os.path.join(V.VERIF, "litmus"), env=V.ENV)
    if p.returncode != 0:
        sys.exit(1)
    rw = V.ensure_rewriter()
    scratch = tempfile.mkdtemp(prefix="mpblit-", dir="/var/tmp")
    try:
        mod = os.path.join(scratch, "litmus")
        shutil.copytree(os.path.join(V.VERIF, "litmus"), mod)
        with open(os.path.join(mod, "go.mod"), "a") as f:
            f.write("\nrequire verif/sim v0.0.0\nreplace verif/sim => %s\n" % os.path.join(V.VERIF, "sim"))
        V.run([rw, "-dir", mod, "./progs"], cwd=mod)
        p = subprocess.run(["go", "run", "./simrun"], cwd=mod, env=V.ENV)
        sys.exit(p.returncode)
    finally:
        shutil.rmtree(scratch, ignore_errors=True)
