#!/usr/bin/env python3
"""Regenerates MANIFEST.json and prop_rules.json from one table (run by hand after adding a check)."""
import json, subprocess

COMMON_NOTE = ("trusted base: the simrt model of Go channels/select/WaitGroup/context/timers (validated by the litmus suite and by the 379 upstream tests "
               "running under the simulator), the source rewriter, the harness probes and oracles; interleavings explored at synchronisation operations only; "
               "a clean batch of sampled schedules is evidence, not proof")

P = {
 "C01": dict(level="exploration", sec="6/C01",
   text="seeded search over schedules (random, run-to-block, PCT, class starvation) and configurations (queue length below/at/above the bar count, refresh modes and rates, sync decorators, pop, remove-on-complete, priority changes, concurrent Write); deadlock is recognised exactly as a simulator state, hang by a fair-suffix step budget",
   oracle="no simulator deadlock; main returns from Wait within the fair-suffix budget; every client call returns",
   nontrivial=">= 2 bars added, >= 1 frame written, Wait entered"),
 "C02": dict(level="exploration", sec="6/C02",
   text="seeded search with the container-done event (Wait return, Shutdown, context cancel) placed at every position of generated call histories over all public Progress and Bar methods; any panic in any simulated goroutine ends the run and is reported with its stack",
   oracle="no panic in any goroutine; calls invoked after Wait returned: Add -> (nil, ErrDone), Write -> (0, ErrDone), getters equal the final values, everything returns",
   nontrivial=">= 4 client operations"),
 "C03": dict(level="exploration", sec="6/C03",
   text="seeded search over client programs and schedules; the last frame written before Wait returned is parsed (self-identifying rows) and compared with the getters read after Wait and with the membership the program implies",
   oracle="last frame == bars still in the container, each once, flags/current equal Completed()/Aborted()/Current() after Wait, on-complete/on-abort messages shown, removed bars absent; no output Write after Wait returned",
   nontrivial=">= 1 bar, >= 1 frame, Wait returned"),
 "C04": dict(level="exploration", sec="6/C04",
   text="every frame of every run is fed to a VT100-subset terminal emulator (autowrap with pending-wrap, LF scroll into scrollback, CUU clamped, ED) of the scenario's size; terminal heights below/at/above the row count, widths 1..200, growing resizes, extender rows, user text, pop mode",
   oracle="after every frame: emulator lines == persisted lines (user text, popped bars) ++ rows of the frame; no live row in the scrollback; rows fit the columns; no CUU 0; nothing written before the render delay ends; silence without refresh on a non-terminal",
   nontrivial=">= 2 frames and >= 1 bar"),
 "C05": dict(level="exploration", sec="6/C05",
   text="seeded search over add/complete/abort(+drop)/remove/pop histories interleaved with render cycles; per-bar presence over the parsed frames is checked against a lifecycle automaton and the shutdown notifier value against the membership model",
   oracle="no bar twice in a frame; a bar added before a cycle began is in that frame; presence is contiguous; a bar leaves only when finished and removable; notifier lists exactly the bars still in the container, once",
   nontrivial=">= 2 bars and >= 2 frames"),
 "C09": dict(level="exploration", sec="6/C09",
   text="operation-by-operation comparison of one bar with a sequential reference model written from the documentation, for generated sequences with boundary and random int64 arguments from every kind of initial total, while render cycles, early refresh, ticks and other bars' traffic are interleaved by the scheduler in auto/manual/non-refreshing containers",
   oracle="while the reference is not terminal (and once right after the step that makes it terminal) Current/Completed/Aborted equal the reference; Statistics seen by decorators between two operations equal the reference state (incl. refill)",
   nontrivial=">= 3 mutators issued by the client under test"),
 "C10": dict(level="exploration", sec="6/C10",
   text="2-5 client goroutines on 1-3 shared bars; invoke/return histories stamped with the simulator's total order are checked per bar with porcupine against the reference bar (nondeterministic only for counter updates on an aborted bar); the same scenarios run in a -race build of the worker where the detector sees only the happens-before edges the simulated primitives announce",
   oracle="porcupine: not Illegal; Current at quiescence == capped sum of increments; race tier: zero detector reports",
   nontrivial=">= 6 operations from >= 2 clients"),
 "C11": dict(level="exploration", sec="6/C11",
   text="monitor over every observation of (Completed, Aborted): client getters (single, back-to-back in both orders, from polling clients), Statistics seen by decorators in frames, getters after Wait; generators abort bars whose current equals total, bars with total <= 0, increment after abort, race abort with completion, cancel containers",
   oracle="never both; Completed once true stays true and Aborted stays false after it; Aborted once true stays true and Completed false; exactly one after Wait; cancelled unfinished bars report aborted",
   nontrivial=">= 1 bar with final getters read"),
 "C13": dict(level="exploration", sec="6/C13",
   text="1-4 writer clients write uniquely tagged lines before, between and during render cycles, racing with completion, the final render, Shutdown, and after Wait; the concatenated output is parsed",
   oracle="a successful Write (rendering started) has its lines exactly once, contiguous, above the bar rows of its frame, in an order consistent with call order, before Wait returns (auto) / on the next frame (manual); failed or late writes emit nothing and late ones return (0, ErrDone); no foreign user line",
   nontrivial=">= 2 Write calls and >= 1 frame"),
 "C16": dict(level="exploration", sec="6/C16",
   text="the simulator's goroutine table is ground truth: after main returned from Wait, joined its clients and read the notifier, the run continues under the fair policy to quiescence; normal, cancelled and serially reused containers (2-4 in one run)",
   oracle="no goroutine created at a library site is alive (parked or spinning) at quiescence",
   nontrivial=">= 1 bar and main returned"),
}

NA = [
 ("C07", "pure function of (width, style, values): no schedule, clock, fault or interleaving for a simulator to control"),
 ("C08", "pure integer/float arithmetic of (total, current, width): no schedule, clock, fault or interleaving for a simulator to control"),
]
PENDING = ["C06", "C12", "C14", "C15", "C17", "C18", "C19", "C20"]

def main():
    checks = []
    rules = {}
    for pid in sorted(P):
        d = P[pid]
        checks.append({
            "property_id": pid,
            "quick_cmd": "./verif check %s --tier quick" % pid,
            "thorough_cmd": "./verif check %s --tier thorough" % pid,
            "evidence_file": "/verif/evidence/%s.json" % pid,
            "replay_cmd_template": "./verif replay {path}",
            "engine": "simrt",
            "level_claimed": {"category": d["level"], "text": d["text"], "design_ref": "DESIGN.md section " + d["sec"]},
            "level_note": COMMON_NOTE + d.get("note", ""),
            "technique": d.get("technique", "deterministic simulation: seeded schedule/fault search over the instrumented real code, oracle over the recorded history"),
        })
        rules[pid] = {"oracle": d["oracle"], "nontrivial": d["nontrivial"]}
    na = [{"property_id": i, "reason": r} for i, r in NA]
    for pid in PENDING:
        if pid not in P:
            na.append({"property_id": pid, "reason": "not claimed yet: the simulation check for this property is still being built (see DESIGN.md section 6)"})
    m = {
        "version": 1,
        "setup_cmd": "cd /verif/rewriter && GOFLAGS=-mod=mod GOPROXY=off GOSUMDB=off GOTOOLCHAIN=local go build -o /verif/bin/simrewrite .",
        "hooks": {
            "guard": "none (instrumentation is applied by source rewriting to a scratch copy of /repo at check time; /repo carries no hook code)",
            "enable": "each check copies /repo's working tree to a scratch dir, runs bin/simrewrite over it and builds the simulation worker against the rewritten copy",
            "baseline_off_cmd": "cd /repo && GOFLAGS=-mod=mod GOPROXY=off GOSUMDB=off GOTOOLCHAIN=local go test -vet=off -count=1 ./...",
            "source_commits": [],
            "add_only": True,
        },
        "engines": [
            {"name": "simrt", "path": "/verif/sim", "serves_properties": sorted(P), "kind_free_text": "deterministic single-stepping simulator for Go concurrency primitives (channels, select, WaitGroup, Mutex, context, time) + source rewriter (/verif/rewriter) + scenario harness (/verif/harness)"},
        ],
        "checks": checks,
        "not_applicable": na,
        "notes": "fix: commits in /repo (see /verif/known_findings.json): F1 detached heap push, F3 completed() ignoring aborted, F5 rows == terminal height, F6 data race in completed(). See DESIGN.md.",
    }
    json.dump(m, open("/verif/MANIFEST.json", "w"), indent=1)
    json.dump(rules, open("/verif/prop_rules.json", "w"), indent=1)

main()
