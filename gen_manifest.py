#!/usr/bin/env python3
"""Regenerates MANIFEST.json and prop_rules.json from one table (run by hand after adding a check)."""
import json, subprocess

COMMON_NOTE = ("trusted base: the simrt model of Go channels/select/WaitGroup/context/timers (validated by the litmus suite and by the 379 upstream tests "
               "running under the simulator), the source rewriter, the harness probes and oracles; interleavings explored at synchronisation operations only; "
               "a clean batch of sampled schedules is evidence, not proof")

P = {
 "C01": dict(level="exploration", sec="6/C01",
   text="seeded search over schedules (random, run-to-block, PCT, class starvation) and configurations (queue length below/at/above the bar count, refresh modes and rates, sync decorators, pop, remove-on-complete, priority changes, concurrent Write); deadlock is recognised exactly as a simulator state, hang by a fair-suffix step budget",
   oracle="no simulator deadlock; main returns from Wait within the fair-suffix budget; every client call returns",
   nontrivial=">= 2 bars added, >= 1 frame written, Wait entered"),
 "C02": dict(level="exploration", sec="6/C02",
   text="seeded search with the container-done event (Wait return, Shutdown, context cancel) placed at every position of generated call histories over all public Progress and Bar methods; any panic in any simulated goroutine ends the run and is reported with its stack",
   oracle="no panic in any goroutine; calls invoked after Wait returned: Add -> (nil, ErrDone), Write -> (0, ErrDone), getters equal the final values, everything returns",
   nontrivial=">= 4 client operations"),
 "C03": dict(level="exploration", sec="6/C03",
   text="seeded search over client programs and schedules; the last frame written before Wait returned is parsed (self-identifying rows) and compared with the getters read after Wait and with the membership the program implies",
   oracle="last frame == bars still in the container, each once, flags/current equal Completed()/Aborted()/Current() after Wait, on-complete/on-abort messages shown, removed bars absent; no output Write after Wait returned",
   nontrivial=">= 1 bar, >= 1 frame, Wait returned"),
 "C04": dict(level="exploration", sec="6/C04",
   text="every frame of every run is fed to a VT100-subset terminal emulator (autowrap with pending-wrap, LF scroll into scrollback, CUU clamped, ED) of the scenario's size; terminal heights below/at/above the row count, widths 1..200, growing resizes, extender rows, user text, pop mode",
   oracle="after every frame: emulator lines == persisted lines (user text, popped bars) ++ rows of the frame; no live row in the scrollback; rows fit the columns; no CUU 0; nothing written before the render delay ends; silence without refresh on a non-terminal",
   nontrivial=">= 2 frames and >= 1 bar"),
 "C05": dict(level="exploration", sec="6/C05",
   text="seeded search over add/complete/abort(+drop)/remove/pop histories interleaved with render cycles; per-bar presence over the parsed frames is checked against a lifecycle automaton and the shutdown notifier value against the membership model",
   oracle="no bar twice in a frame; a bar added before a cycle began is in that frame; presence is contiguous; a bar leaves only when finished and removable; notifier lists exactly the bars still in the container, once",
   nontrivial=">= 2 bars and >= 2 frames"),
 "C09": dict(level="exploration", sec="6/C09",
   text="operation-by-operation comparison of one bar with a sequential reference model written from the documentation, for generated sequences with boundary and random int64 arguments from every kind of initial total, while render cycles, early refresh, ticks and other bars' traffic are interleaved by the scheduler in auto/manual/non-refreshing containers",
   oracle="while the reference is not terminal (and once right after the step that makes it terminal) Current/Completed/Aborted equal the reference; Statistics seen by decorators between two operations equal the reference state (incl. refill)",
   nontrivial=">= 3 mutators issued by the client under test"),
 "C10": dict(level="exploration", sec="6/C10",
   text="2-5 client goroutines on 1-3 shared bars; invoke/return histories stamped with the simulator's total order are checked per bar with porcupine against the reference bar (nondeterministic only for counter updates on an aborted bar); the same scenarios run in a -race build of the worker where the detector sees only the happens-before edges the simulated primitives announce",
   oracle="porcupine: not Illegal; Current at quiescence == capped sum of increments; race tier: zero detector reports",
   nontrivial=">= 6 operations from >= 2 clients"),
 "C11": dict(level="exploration", sec="6/C11",
   text="monitor over every observation of (Completed, Aborted): client getters (single, back-to-back in both orders, from polling clients), Statistics seen by decorators in frames, getters after Wait; generators abort bars whose current equals total, bars with total <= 0, increment after abort, race abort with completion, cancel containers",
   oracle="never both; Completed once true stays true and Aborted stays false after it; Aborted once true stays true and Completed false; exactly one after Wait; cancelled unfinished bars report aborted",
   nontrivial=">= 1 bar with final getters read"),
 "C13": dict(level="exploration", sec="6/C13",
   text="1-4 writer clients write uniquely tagged lines before, between and during render cycles, racing with completion, the final render, Shutdown, and after Wait (single lines, paragraphs, more than 4 KiB, empty writes, the same line repeated once per cycle over idle bars; the caller overwrites its buffer after each call); the concatenated output is parsed",
   oracle="a successful Write (rendering started) has its lines exactly once, contiguous, above the bar rows of its frame, in an order consistent with call order, before Wait returns (auto) / on the next frame (manual); failed or late writes emit nothing and late ones return (0, ErrDone); no foreign user line",
   nontrivial=">= 2 Write calls and >= 1 frame"),
 "C16": dict(level="exploration", sec="6/C16",
   text="the simulator's goroutine table is ground truth: after main returned from Wait, joined its clients and read the notifier, the run continues under the fair policy to quiescence; normal, cancelled and serially reused containers (2-4 in one run)",
   oracle="no goroutine created at a library site is alive (parked or spinning) at quiescence",
   nontrivial=">= 1 bar and main returned"),

 "C06": dict(level="exploration", sec="6/C06",
   text="the harness records every priority assignment (creation index or explicit priority, SetPriority, UpdateBarPriority lazy/immediate) with invoke/return positions; per frame the rows must admit a non-decreasing choice from each bar's set of legally possible priorities at the start of that render cycle; the single frame after a lazy change is skipped; popped bars must sit above every bar that stays",
   oracle="rows of every specified frame are ordered by priority (ties free); a lazy change is honoured from the frame after next; popped bars are above all running bars",
   nontrivial=">= 2 bars and >= 2 frames"),
 "C12": dict(level="exploration", sec="6/C12",
   text="probe decorators record (text, W, C, returned string, returned width) of every Format call; per render cycle, side and ordinal among the synchronised decorators all returned widths must be equal to the maximum need over the bars drawn in that frame; uneven layouts, texts varying per frame, wrappers, bars joining/leaving, n>q",
   oracle="per frame/side/column: common width == max(W > textwidth ? W : textwidth + extraspace); returned string has that display width and is in the bar's row; members are exactly the drawn bars; one Format per decorator per cycle",
   nontrivial=">= 2 bars with synchronised decorators and >= 1 frame"),
 "C14": dict(level="fault_enumeration", sec="6/C14",
   text="for every base run the cancellation (context cancel or Shutdown) is injected by a canceller goroutine at every scheduling step of the base execution (all steps up to 400/1200, a seeded sample beyond), with the identical schedule prefix; a quarter of the placements again with the next output write or fill after that step failing (the shutdown render dies); auto, manual and non-refreshing containers, listeners under 0-3 wrapper layers, notifier, Add in flight",
   oracle="Wait returns; every bar !IsRunning, Completed xor Aborted, Bar.Wait returns; every shutdown listener notified exactly once before Wait returned; exactly one notifier value without duplicates listing the bars still in the container; no panic; no output after Wait",
   nontrivial="the cancellation was injected before Wait returned and >= 1 bar exists"),
 "C15": dict(level="fault_enumeration", sec="6/C15",
   text="the fault-free base run counts the calls per fault site (k-th Fill of bar i, k-th extender call, k-th output Write as error and as short write, k-th terminal-size query); every (site, k) up to 12/24 is then executed, half of them under a second schedule, with synchronised decorators on the other bars",
   oracle="Wait returns (no deadlock/hang), no panic, the debug output gets exactly one line with the error's text, no output Write after the failing cycle, all bars stopped, no client call stuck, no library goroutine left",
   nontrivial="the planned fault actually fired and >= 1 bar exists"),
 "C17": dict(level="exploration", sec="6/C17",
   text="generated histories over {create predecessor, predecessor finishes, predecessor flushed, create successor(s), successor finishes}: single successor, fan-out (2-3 successors of one predecessor), chains, late successors, with bystander bars, remove-on-complete and pop mode",
   oracle="successor never in a frame with its predecessor; present in the frame after the predecessor's last frame, between the same neighbours (priority ties free); displayed at least once; Wait and Bar.Wait return",
   nontrivial="at least one bar was created with BarQueueAfter and >= 2 frames"),
 "C18": dict(level="exploration", sec="6/C18",
   text="pop-completed containers with 1-8 bars finishing in any order or cycle, extender rows, user text, no-pop bars, queued successors, terminal and plain outputs; the emulator equation of C04 with popped row groups as persisted lines, plus per-bar pop rules",
   oracle="screen == persisted ++ live rows after every frame (popped groups persist once, unchanged, in pop order, above all later output); a bar is popped only when shown finished and above every bar drawn again later; pop order follows finishing order; no-pop bars stay; at most 3 finished frames",
   nontrivial="pop mode, >= 1 bar, >= 3 frames"),
 "C19": dict(level="fault_enumeration", sec="6/C19",
   text="seeded byte streams copied through ProxyReader/ProxyWriter by explicit loops (seeded buffer sizes incl. 0) and io.Copy, over the eight stub shapes {Reader,ReadCloser}x{+-WriterTo}, {Writer,WriteCloser}x{+-ReaderFrom} with seeded chunking (0, short, full), simulated latency and a failure placed at every call of the fault-free run; totals unknown/equal/larger/smaller; bare and wrapped moving-average recorders",
   oracle="call by call (n, err) and data equal the stub's; Close forwarded once with its error; fast path offered iff the stub has it and used by io.Copy; Current() after each call equals the reference bar fed with the same n; recorders get one sample per call with its n and its simulated duration (+0..16ns)",
   nontrivial=">= 4 stream calls recorded"),
 "C20": dict(level="exploration", sec="6/C20",
   text="PARTIAL: decides the clock/history half. Elapsed, AverageSpeed, AverageETA run on the simulated clock (sleeps up to 50 simulated hours) and their marked texts are read back from the frames; moving-average speed/ETA get a recording MovingAverage and generated sample histories (n <= 0, zero and huge durations) through EwmaIncr*/EwmaSetCurrent, bare and under 1-3 wrapper layers; size/counter/percentage texts found in frames are parsed back (sampling only)",
   oracle="elapsed text == style(simulated elapsed); frozen after completion/abort; average speed frozen after completion and == current/elapsed within printed precision; ETA == (total-current) x round(elapsed/current); values added to the moving average == reference fold (carry when n <= 0); no NaN/Inf; sizes/percentages read back within half a unit of the last digit with the largest fitting unit",
   nontrivial=">= 2 frames and >= 1 bar",
   note="; the universal claim over all int64 values, verbs and precisions is an input-space claim that simulation samples but does not decide"),
}

NA = [
 ("C07", "pure function of (width, style, values): no schedule, clock, fault or interleaving for a simulator to control"),
 ("C08", "pure integer/float arithmetic of (total, current, width): no schedule, clock, fault or interleaving for a simulator to control"),
]
PENDING = []

def main():
    checks = []
    rules = {}
    for pid in sorted(P):
        d = P[pid]
        checks.append({
            "property_id": pid,
            "quick_cmd": "./verif check %s --tier quick" % pid,
            "thorough_cmd": "./verif check %s --tier thorough" % pid,
            "evidence_file": "/verif/evidence/%s.json" % pid,
            "replay_cmd_template": "./verif replay {path}",
            "engine": "simrt",
            "level_claimed": {"category": d["level"], "text": d["text"], "design_ref": "DESIGN.md section " + d["sec"]},
            "level_note": COMMON_NOTE + d.get("note", ""),
            "technique": d.get("technique", "deterministic simulation: seeded schedule/fault search over the instrumented real code, oracle over the recorded history"),
        })
        rules[pid] = {"oracle": d["oracle"], "nontrivial": d["nontrivial"]}
    na = [{"property_id": i, "reason": r} for i, r in NA]
    for pid in PENDING:
        if pid not in P:
            na.append({"property_id": pid, "reason": "not claimed yet: the simulation check for this property is still being built (see DESIGN.md section 6)"})
    m = {
        "version": 1,
        "setup_cmd": "cd /verif/rewriter && GOFLAGS=-mod=mod GOPROXY=off GOSUMDB=off GOTOOLCHAIN=local go build -o /verif/bin/simrewrite .",
        "hooks": {
            "guard": "none (instrumentation is applied by source rewriting to a scratch copy of /repo at check time; /repo carries no hook code)",
            "enable": "each check copies /repo's working tree to a scratch dir, runs bin/simrewrite over it and builds the simulation worker against the rewritten copy",
            "baseline_off_cmd": "cd /repo && GOFLAGS=-mod=mod GOPROXY=off GOSUMDB=off GOTOOLCHAIN=local go test -vet=off -count=1 ./...",
            "source_commits": [],
            "add_only": True,
        },
        "engines": [
            {"name": "simrt", "path": "/verif/sim", "serves_properties": sorted(P), "kind_free_text": "deterministic single-stepping simulator for Go concurrency primitives (channels, select, WaitGroup, Mutex, context, time) + source rewriter (/verif/rewriter) + scenario harness (/verif/harness)"},
        ],
        "checks": checks,
        "not_applicable": na,
        "notes": "fix: commits in /repo (see /verif/known_findings.json and DESIGN.md section 8): F1 detached heap push, F2 fill error strands sync peers, F3 completed() ignoring aborted, F4a two successors of one predecessor, F5 rows == terminal height, F6 data race in completed(), F8 priority update on a popping bar, F9 Wait returning before late bars' listeners, F10 WaitGroup reuse panic when Add races with cancellation, F11 filler on-complete/on-abort message wider than the row; open finding F4b (late successor, KNOWN-FINDING in C17). Sensitivity: 37 own mutants + 220 independently seeded changes (14 waves of sub-agents, each given only a property's text); after strengthening all are detected by their target property's quick check except s207, whose history lies outside the domain the properties specify (DESIGN.md section 12).",
    }
    json.dump(m, open("/verif/MANIFEST.json", "w"), indent=1)
    json.dump(rules, open("/verif/prop_rules.json", "w"), indent=1)

main()
